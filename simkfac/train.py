"""W-train: N ranks train a zoo model with the real KFACPreconditioner.

A *plan* (JSON) fixes everything: world, model, data, K-FAC arguments,
placement, the operation list, simulator knobs and the scheduling seed.
``execute(plan)`` runs it (several incarnations when the plan contains
restarts) and returns the recorded observations; the oracles live in
``oracle_train.py``.
"""

from __future__ import annotations

import copy
import gc
import hashlib
import io
import random
import traceback
import warnings
from typing import Any

import torch
import torch.distributed as dist

from simkfac import core, hp as hpmod, models, ref as R, sched
from simkfac.ref import F64, layer_info


def _kfac() -> Any:
    import kfac  # noqa: F401
    import kfac.preconditioner
    import kfac.scheduler
    import kfac.enums
    import kfac.assignment
    import kfac.layers.base
    import kfac.layers.modules
    import kfac.distributed

    return kfac


# ---------------------------------------------------------------------------
# counting wrappers for decompositions (probe only; call the real routine)
# ---------------------------------------------------------------------------

_DECOMP_COUNTS: dict[int, int] = {}
_REAL_LINALG: dict[str, Any] = {}


def _wrap_linalg() -> None:
    if _REAL_LINALG:
        return
    for n in ('eigh', 'eig', 'inv'):
        real = getattr(torch.linalg, n)
        _REAL_LINALG[n] = real

        def mk(real: Any) -> Any:
            def w(*a: Any, **k: Any) -> Any:
                r = getattr(core._tl, 'rank', None)
                if r is not None and getattr(core._tl, 'count_decomp', False):
                    _DECOMP_COUNTS[r] = _DECOMP_COUNTS.get(r, 0) + 1
                return real(*a, **k)
            return w
        setattr(torch.linalg, n, mk(real))


def _teq(a: torch.Tensor, b: torch.Tensor) -> bool:
    """torch.equal that treats NaN as equal to NaN (a numerically diverged
    run may carry NaNs; NaN != NaN must not read as "changed")."""
    if a.shape != b.shape or a.dtype != b.dtype:
        return False
    if not a.is_floating_point():
        return bool(torch.equal(a, b))
    return bool(torch.equal(torch.nan_to_num(a, nan=12345.0),
                            torch.nan_to_num(b, nan=12345.0)))


def _shifted(name: str, v: Any, how: str) -> Any:
    """A different, legal constant for constructor argument `name`."""
    if name == 'kl_clip':
        if v is None:
            return 0.001
        return None if how == 'none' else v * 4
    if name in hpmod.INT_HPS:
        return v + 1
    if name == 'factor_decay':
        return 0.5 if v != 0.5 else 0.9
    if name == 'damping':
        return v * 3 + 0.01
    return v * 0.5


def _decomp(rank: int) -> int:
    return _DECOMP_COUNTS.get(rank, 0)


# ---------------------------------------------------------------------------
# durable storage surviving incarnations
# ---------------------------------------------------------------------------


class Store:
    def __init__(self) -> None:
        self.ckpt: dict[str, Any] | None = None
        self.n_saves = 0
        # deserialised checkpoint objects kept in memory across a rollback
        # (fault F13): (rank, incarnation, op index of the save) -> object
        self.mem: dict[tuple[int, int, int], Any] = {}


def _ser(obj: Any) -> bytes:
    b = io.BytesIO()
    torch.save(obj, b)
    return b.getvalue()


def _de(b: bytes) -> Any:
    return torch.load(io.BytesIO(b), weights_only=False)


# ---------------------------------------------------------------------------
# generic object-graph helpers (no private attribute names)
# ---------------------------------------------------------------------------


def find_instances(root: Any, cls: type, limit: int = 20000) -> list[Any]:
    seen: set[int] = set()
    out: list[Any] = []
    stack = [root]
    n = 0
    while stack and n < limit:
        o = stack.pop()
        if id(o) in seen:
            continue
        seen.add(id(o))
        n += 1
        if isinstance(o, cls) and o is not root:
            out.append(o)
            continue
        if isinstance(o, (torch.Tensor, torch.nn.Module, str, bytes, int,
                          float, type, core.Sim)):
            continue
        if isinstance(o, dict):
            stack.extend(o.keys())
            stack.extend(o.values())
        elif isinstance(o, (list, tuple, set, frozenset)):
            stack.extend(o)
        elif hasattr(o, '__dict__'):
            stack.extend(vars(o).values())
    return out


def held_tensors(layer: Any, exclude_types: tuple) -> list[torch.Tensor]:
    out = []
    for v in vars(layer).values():
        if isinstance(v, exclude_types):
            continue
        if isinstance(v, core.SimFuture):
            v = v.value() if v.done() else None
        if isinstance(v, torch.Tensor):
            out.append(v)
    return out


# ---------------------------------------------------------------------------
# rank environment
# ---------------------------------------------------------------------------


def _tensor_state(pre: Any, kfacmod: Any) -> dict[str, Any]:
    """Byte-level snapshot of everything tensor-valued held by K-FAC."""
    out: dict[str, Any] = {'steps': pre.steps}
    # scalar bookkeeping of the preconditioner itself (counters, per-layer
    # counters kept in dicts), whatever it is called
    for k, v in vars(pre).items():
        if isinstance(v, (int, float, bool, str, type(None))):
            out[f'pre.{k}'] = v
        elif isinstance(v, dict) and all(
                isinstance(x, (int, float, bool)) for x in v.values()):
            out[f'pre.{k}'] = {str(a): b for a, b in v.items() if b}
    layers = find_instances(pre, kfacmod.layers.base.KFACBaseLayer)
    excl = (kfacmod.layers.modules.ModuleHelper,
            kfacmod.distributed.TorchDistributedCommunicator)
    for i, layer in enumerate(layers):
        for k, v in vars(layer).items():
            if isinstance(v, excl):
                continue
            if isinstance(v, core.SimFuture):
                v = v.value() if v.done() else 'PENDING'
            if isinstance(v, torch.Tensor):
                out[f'{i}.{k}'] = v.detach().clone()
            elif isinstance(v, (int, float, bool, type(None), str)):
                out[f'{i}.{k}'] = v
    return out


def _state_equal(a: dict[str, Any], b: dict[str, Any]) -> list[str]:
    bad = []
    for k in sorted(set(a) | set(b)):
        x, y = a.get(k, 'MISSING'), b.get(k, 'MISSING')
        if isinstance(x, torch.Tensor) and isinstance(y, torch.Tensor):
            # byte comparison: placeholders from torch.empty may hold NaNs
            if x.shape != y.shape or x.dtype != y.dtype or _bytes(
                    x) != _bytes(y):
                bad.append(k)
        elif isinstance(x, torch.Tensor) or isinstance(y, torch.Tensor):
            bad.append(k)
        elif x != y:
            bad.append(k)
    return bad


class RankEnv:
    """Everything one simulated process owns."""

    def __init__(self, plan: dict[str, Any], rank: int, store: Store,
                 incarnation: int, sim: core.Sim) -> None:
        self.plan = plan
        self.rank = rank
        self.store = store
        self.sim = sim
        self.inc = incarnation
        self.records: list[dict[str, Any]] = []
        self.local_violations: list[dict[str, Any]] = []
        self.phase = 'construct'
        self.kfac = _kfac()
        self.world = plan['world']
        self.emulate = plan.get('emulate_world')
        self.mon = plan.get('monitors', {})
        self.loss_scale: float | None = None
        mspec = plan['model']
        self.model = models.build_model(mspec, plan['model_seed'])
        self.twin = None
        if self.mon.get('twin'):
            self.twin = models.build_model(mspec, plan['model_seed'])
        self.reg = models.ref_registered(self.model, mspec.get('skip', []))
        self.reg_by_id = {id(m): n for n, m, _ in self.reg}
        self.infos = {n: layer_info(m, k) for n, m, k in self.reg}
        self.caps: dict[str, dict[str, list]] = {}
        for name, m, _ in self.reg:
            m.register_forward_pre_hook(self._cap_a(name))
            m.register_full_backward_hook(self._cap_g(name))
        self.hp_objs: dict[str, Any] = {}
        self.ext = hpmod.External()
        kw = self._kfac_kwargs()
        self.construct_error: str | None = None
        with warnings.catch_warnings(record=True) as wl:
            warnings.simplefilter('always')
            self.pre = self.kfac.preconditioner.KFACPreconditioner(
                self.model, **kw)
        self.ctor_warnings = [str(w.message) for w in wl]
        self.opt = torch.optim.SGD(self.model.parameters(),
                                   lr=plan.get('opt_lr', 0.05))
        self.sched_obj = None
        self.sched_lambdas: dict[str, Any] = {}
        if plan.get('scheduler'):
            lam = {}
            for name, spec in plan['scheduler'].items():
                r = hpmod.build_lambda(name, spec)
                self.sched_lambdas[name] = r
                lam[name + '_lambda'] = r
            self.sched_obj = self.kfac.scheduler.LambdaParamScheduler(
                self.pre, **lam)
        asg = find_instances(self.pre, self.kfac.assignment.WorkAssignment)
        self.assignment = asg[0] if asg else None
        self.restored: dict[str, Any] | None = None
        init_rec: dict[str, Any] = {
            'op': 'init', 'inc': incarnation, 'infos': self.infos,
            'ctor_warnings': self.ctor_warnings,
            'strategy': getattr(
                getattr(self.pre, 'distributed_strategy', None), 'name',
                None),
        }
        self.op_query({}, init_rec)
        self.records.append(init_rec)
        if incarnation > 0:
            self.phase = 'restore'
            self._restore()
        self.phase = 'ops'

    # -- construction helpers ---------------------------------------------
    def _kfac_kwargs(self) -> dict[str, Any]:
        p = self.plan
        kw: dict[str, Any] = {}
        rop = p.get('_restart_op') or {}
        shift = (rop.get('hp_shift') if self.inc > 0
                 and p.get('_boot_ckpt') is not None else None)
        for name in hpmod.HP_NAMES:
            spec = p['hps'][name]
            if shift and 'c' in spec:
                # the resumed job constructs K-FAC with other constants (a
                # script's defaults) and relies on load_state_dict to
                # restore the saved ones
                spec = {'c': _shifted(name, spec['c'], shift)}
                self.sim.probe('restart_ctor_constants_differ')
            if spec.get('c', 0) is None and 'c' in spec:
                kw[name] = None
                continue
            v = hpmod.build(name, spec, self.ext)
            if isinstance(v, hpmod.Recording):
                self.hp_objs[name] = v
                # callables come in kinds: a callable object, a plain
                # function, a functools.partial
                kind = (p['model_seed'] + len(kw)) % 3
                if kind == 1:
                    v = (lambda s, _r=v: _r(s))
                elif kind == 2:
                    import functools
                    v = functools.partial(hpmod.call_recording, v)
            kw[name] = v
        pl = p['placement']
        E = self.kfac.enums
        gwf = pl['gwf']
        if isinstance(gwf, str):
            kw['grad_worker_fraction'] = E.DistributedStrategy[gwf]
        else:
            kw['grad_worker_fraction'] = gwf[0] / gwf[1]
        kw['colocate_factors'] = pl['colocate']
        kw['assignment_strategy'] = pl['assignment_strategy']
        kw['allreduce_bucket_cap_mb'] = pl['bucket_cap_mb']
        kw['symmetry_aware'] = pl['symmetry_aware']
        kw['compute_method'] = p['method']
        kw['compute_eigenvalue_outer_product'] = p['prediv']
        acc = p['acc'] * (self.emulate or 1)
        kw['accumulation_steps'] = acc
        kw['update_factors_in_hook'] = p['hook']
        kw['skip_layers'] = list(p['model'].get('skip', []))
        if p.get('factor_dtype'):
            kw['factor_dtype'] = models.DTYPES[p['factor_dtype']]
        if p.get('inv_dtype'):
            kw['inv_dtype'] = models.DTYPES[p['inv_dtype']]
        if p.get('loss_scaling'):
            kw['grad_scaler'] = lambda: self.loss_scale
        return kw

    def _cap_a(self, name: str) -> Any:
        def hook(mod: Any, inp: Any) -> None:
            if getattr(self, 'capturing', False):
                self.caps.setdefault(name, {'a': [], 'g': []})['a'].append(
                    inp[0].detach().clone())
        return hook

    def _cap_g(self, name: str) -> Any:
        def hook(mod: Any, gi: Any, go: Any) -> None:
            if getattr(self, 'capturing', False):
                g = go[0] if isinstance(go, tuple) else go
                self.caps.setdefault(name, {'a': [], 'g': []})['g'].append(
                    g.detach().clone())
        return hook

    # -- violations -------------------------------------------------------
    def bad(self, clause: str, **detail: Any) -> None:
        self.local_violations.append(
            {'clause': clause, 'rank': self.rank, 'inc': self.inc, **detail})

    # -- restore after a crash ------------------------------------------
    def _restore(self) -> None:
        # the checkpoint as it was when the job was restarted (a fast rank
        # may already be writing the next one while a slow rank restores)
        ck = self.plan['_boot_ckpt']
        rec: dict[str, Any] = {'op': 'restore', 'inc': self.inc,
                               'had_ckpt': ck is not None}
        self.records.append(rec)
        if ck is None:
            return
        rop = self.plan['_restart_op']
        ci = rop.get('compute_inverses', True)
        # state outside K-FAC (what an external-state callable reads) is
        # restored from its own checkpoint before K-FAC is loaded
        self.ext.it = ck.get('ext_it', 0)
        self.model.load_state_dict(_de(ck['model']))
        if self.twin is not None:
            self.twin.load_state_dict(_de(ck['model']))
        self.opt.load_state_dict(_de(ck['opt']))
        sd = _de(ck['kfac'])
        if self.plan['sim'].get('mem_ckpt'):
            # F13: a job that rolls back twice to the same checkpoint hands
            # load_state_dict the SAME deserialised object both times
            key = (self.rank, ck['inc'], ck['op_index'])
            if key in self.store.mem:
                sd = self.store.mem[key]
                self.sim.fault('checkpoint_object_reused')
            else:
                self.store.mem[key] = sd
        saved = _de(ck['kfac'])
        nlay = len(self.reg)
        if rop.get('try_bad') and 'layers' in sd and nlay >= 1:
            badsd = _de(ck['kfac'])
            first = sorted(badsd['layers'])[0]
            if rop['try_bad'] == 'drop':
                del badsd['layers'][first]
            else:
                badsd['layers']['__extra__'] = badsd['layers'][first]
            try:
                self.pre.load_state_dict(badsd, compute_inverses=False)
                self.bad('C09.bad_state_accepted', how=rop['try_bad'])
            except ValueError:
                rec['bad_rejected'] = True
            self.sim.probe('bad_state_load_tried')
        log0 = len(self.sim.log)
        with warnings.catch_warnings(record=True) as wl:
            warnings.simplefilter('always')
            try:
                self.pre.load_state_dict(sd, compute_inverses=ci)
            except core.SimAbort:
                raise
            except Exception as e:  # noqa: BLE001
                self.bad('C09.load_raised', error=repr(e),
                         tb=traceback.format_exc()[-1500:])
                raise
        rec['load_warnings'] = [str(w.message) for w in wl]
        rec['compute_inverses'] = ci
        rec['saved_steps'] = saved['steps']
        me = self.rank
        rec['traffic'] = [
            e for e in self.sim.log[log0:]
            if len(e) > 8 and e[1] == me and e[8] == 'kfac'
        ]
        # (i) exact round trip, read back through the public API
        after = self.pre.state_dict()
        if after['steps'] != saved['steps'] or self.pre.steps != saved[
                'steps']:
            self.bad('C09.steps_not_restored', got=after['steps'],
                     want=saved['steps'])
        for k in hpmod.HP_NAMES:
            if k in saved:
                if k not in after or after[k] != saved[k] or getattr(
                        self.pre, k) != saved[k]:
                    self.bad('C09.hp_not_restored', name=k,
                             got=after.get(k), want=saved[k])
        if 'layers' in saved:
            for name in saved['layers']:
                for f in ('A', 'G'):
                    want = saved['layers'][name][f]
                    got = after['layers'].get(name, {}).get(f)
                    if want is None:
                        continue
                    if got is None or got.dtype != want.dtype or \
                            got.shape != want.shape or not _teq(
                                got, want):
                        self.bad('C09.factor_not_restored', layer=name,
                                 factor=f)
        rec['include_factors'] = 'layers' in saved
        if 'layers' in after:
            rec['restored_factors'] = {
                n: {k: (None if v is None else v.detach().clone())
                    for k, v in f.items()}
                for n, f in after['layers'].items()}
        self.restored = saved

    # -- operations ---------------------------------------------------------
    def run_ops(self, ops: list[dict[str, Any]]) -> None:
        for i, op in ops:
            rec: dict[str, Any] = {'op': op['op'], 'i': i, 'inc': self.inc}
            self.records.append(rec)
            self.phase = op['op']
            getattr(self, 'op_' + op['op'])(op, rec)
            rec['done'] = True

    def _distributed(self) -> bool:
        return self.plan.get('initialized', True) and self.world > 1

    def _fwd_bwd(self, model: Any, it: int, vr: int, micro: int, acc: int,
                 zero: bool) -> torch.Tensor:
        x, y = models.batch(self.plan['model'], self.plan['data_seed'], it,
                            vr, micro)
        out = models.forward(model, self.plan['model'], x)
        if model is self.model and getattr(self, '_nested_eval', None) == it:
            # an eval-mode probe BETWEEN this micro-batch's forward pass and
            # its backward pass (validation on a held-out batch while the
            # training graph is alive): the pending backward pass must still
            # contribute its output gradients to G
            self._nested_eval = None
            self._eval_probe(it)
            self.sim.probe('eval_pass_between_forward_and_backward')
        gain = self.plan.get('loss_gain', 1.0)
        loss = models.loss_fn(out, y, gain) / acc
        if zero:
            loss = loss * 0.0
        if self.loss_scale is not None:
            loss = loss * self.loss_scale
        loss.backward()
        return out.detach()

    def op_train(self, op: dict[str, Any], rec: dict[str, Any]) -> None:
        plan, pre, model = self.plan, self.pre, self.model
        it = op['it']
        acc = plan['acc']
        rec['it'] = it
        # public hyper-parameter properties may be read at any time (metric
        # logging); here: after the previous step, before the external state
        # (optimizer lr, ...) moves on to this iteration
        if self.mon.get('read_hps'):
            rec['hp_read'] = {k: getattr(pre, k) for k in hpmod.HP_NAMES}
            self.sim.probe('hp_properties_read_between_steps')
        self.ext.it = it
        rec['steps_before'] = pre.steps
        log0 = len(self.sim.log)
        scaling = bool(plan.get('loss_scaling'))
        if scaling:
            self.loss_scale = float(2 ** (3 + it % 4))
        for r in self.hp_objs.values():
            r.calls.clear()
        model.train()
        self.opt.zero_grad(set_to_none=bool(op.get('set_none', it % 2)))
        if self.twin is not None:
            self.twin.train()
            self.twin.zero_grad(set_to_none=True)
        self.caps = {}
        rec['caps'] = self.caps
        self.capturing = True
        vranks = range(self.emulate) if self.emulate else [self.rank]
        if op.get('extra_fwd') and not plan['hook']:
            # a training-mode forward without backward (pseudo-labelling):
            # one more input sample for A than output gradients for G
            for vr in vranks:
                x, _ = models.batch(plan['model'], plan['data_seed'], it,
                                    vr, 99)
                with torch.no_grad():
                    models.forward(model, plan['model'], x)
                    if self.twin is not None:
                        models.forward(self.twin, plan['model'], x)
            self.sim.probe('forward_only_pass')
        unscaled: dict[int, torch.Tensor] = {}
        scales: list[float] = []
        for vr in vranks:
            for micro in range(acc):
                if op.get('mid_eval') == micro and not self.emulate:
                    if op.get('mid_eval_nested'):
                        self._nested_eval = it
                    else:
                        self._eval_probe(it)
                if scaling:
                    # a callable scaler may change at any time: every
                    # micro-batch runs under its own loss scale and is
                    # unscaled with it (C04: "divided by the loss scale")
                    self.loss_scale = float(2 ** (3 + (it + 2 * micro
                                                        + vr) % 5))
                    scales.append(self.loss_scale)
                out = self._fwd_bwd(model, it, vr, micro, acc,
                                    op.get('zero', False))
                if scaling:
                    with torch.no_grad():
                        for p in model.parameters():
                            if p.grad is None:
                                continue
                            g = p.grad / self.loss_scale
                            if id(p) in unscaled:
                                unscaled[id(p)] += g
                            else:
                                unscaled[id(p)] = g
                            p.grad.zero_()
                if op.get('reset_after') == micro and not self.emulate:
                    pre.reset_batch()
                    rec['reset_after'] = micro
                    for c in self.caps.values():
                        c['a'].clear()
                        c['g'].clear()
                if self.twin is not None:
                    out2 = self._fwd_bwd(self.twin, it, vr, micro, acc,
                                         op.get('zero', False))
                    if not _teq(out, out2):
                        self.bad('C10.twin_output_differs', it=it)
                    if scaling:
                        with torch.no_grad():
                            for q in self.twin.parameters():
                                if q.grad is None:
                                    continue
                                g = q.grad / self.loss_scale
                                if id(q) in unscaled:
                                    unscaled[id(q)] += g
                                else:
                                    unscaled[id(q)] = g
                                q.grad.zero_()
        self.capturing = False
        if scaling:
            with torch.no_grad():
                for mdl in (model, self.twin):
                    if mdl is None:
                        continue
                    for p in mdl.parameters():
                        if id(p) in unscaled:
                            p.grad.copy_(unscaled[id(p)])
            rec['loss_scales'] = scales
            # the scaler moves on before step() (legal for a callable)
            self.loss_scale = float(2 ** (1 + it % 3))
        if self.twin is not None:
            for (n, p), (_, q) in zip(model.named_parameters(),
                                      self.twin.named_parameters()):
                if (p.grad is None) != (q.grad is None) or (
                        p.grad is not None
                        and not _teq(p.grad, q.grad)):
                    self.bad('C10.twin_grad_differs', param=n, it=it)
            self.sim.probe('twin_compared')
        params = [p for p in model.parameters() if p.grad is not None]
        with torch.no_grad():
            if self.emulate:
                for p in params:
                    p.grad.div_(self.emulate)
            elif self._distributed():
                flat = torch.cat([p.grad.reshape(-1) for p in params])
                with core.origin('workload'):
                    dist.all_reduce(flat)
                flat.div_(self.world)
                o = 0
                for p in params:
                    n = p.grad.numel()
                    p.grad.copy_(flat[o:o + n].view_as(p.grad))
                    o += n
        rec['D'] = {n: models.combined_grad(m) for n, m, _ in self.reg}
        rec['loss_scale'] = scales if scaling else None
        # ---- C10 snapshot
        reg_params = {id(p) for _, m, _ in self.reg for p in m.parameters()}
        before_state = {k: v.detach().clone()
                        for k, v in model.state_dict().items()}
        before_other = {
            n: (None if p.grad is None else p.grad.detach().clone())
            for n, p in model.named_parameters() if id(p) not in reg_params
        }
        before_meta = {
            n: (tuple(p.grad.shape), p.grad.dtype, p.grad.device,
                p.grad.is_contiguous())
            for n, p in model.named_parameters()
            if id(p) in reg_params and p.grad is not None
        }
        inputs_finite = all(
            bool(torch.isfinite(d).all()) and float(d.abs().max()) < 1e6
            for d in rec['D'].values() if d.numel())
        for c in self.caps.values():
            for t in c['a'] + c['g']:
                if not bool(torch.isfinite(t).all()) or float(
                        t.abs().max()) > 1e6:
                    inputs_finite = False
        if inputs_finite and self.plan.get('factor_dtype') == 'float16' \
                and not R.fp16_range_ok(self.world, self.caps):
            inputs_finite = False
        if not inputs_finite:
            # numerically diverged training: K-FAC state may hold inf from
            # here on, the finite-in/finite-out clause no longer applies
            self.diverged = True
        inputs_finite = inputs_finite and not getattr(self, 'diverged',
                                                      False)
        core._tl.count_decomp = True
        d0 = _decomp(self.rank)
        steps0 = pre.steps
        rec['events_before_step'] = len(self.sim.log)
        pre.step()
        core._tl.count_decomp = False
        rec['decomps'] = _decomp(self.rank) - d0
        rec['steps_after'] = pre.steps
        if plan['method'] == 'eigen' and inputs_finite:
            # C01: "factors taken positive semi-definite" - the eigenvalues
            # the layers precondition with are never negative (public
            # attributes of the eigen layer; skipped if a refactoring renames
            # them). With pre-division receivers keep an unused, never
            # written da: only the product is looked at there.
            Eig = getattr(self.kfac.layers.eigen, 'KFACEigenLayer', None)
            for layer in (find_instances(pre, Eig) if Eig else []):
                for attr in (('dgda',) if plan['prediv'] else ('da', 'dg')):
                    t = getattr(layer, attr, None)
                    if isinstance(t, torch.Tensor) and t.numel() and bool(
                            torch.isfinite(t).all()) and float(t.min()) < 0:
                        self.bad('C01.negative_eigenvalue', what=attr,
                                 min=float(t.min()), it=it)
                    self.sim.probe('eigenvalue_sign_checks')
        if pre.steps != steps0 + 1:
            self.bad('C05.steps_not_incremented', before=steps0,
                     after=pre.steps)
        rec['hp_calls'] = {k: list(v.calls)
                           for k, v in self.hp_objs.items()}
        # ---- C10 compare
        after_state = model.state_dict()
        for k, v in before_state.items():
            if not torch.equal(v, after_state[k]) and not (
                    v.is_floating_point() and torch.equal(
                        torch.nan_to_num(v), torch.nan_to_num(
                            after_state[k]))):
                self.bad('C10.param_or_buffer_changed', key=k, it=it)
        for n, p in model.named_parameters():
            if id(p) in reg_params:
                continue
            b = before_other[n]
            # (NaN-safe: a diverged run may carry NaNs in these gradients,
            # and NaN != NaN would read as "changed")
            if (b is None) != (p.grad is None) or (
                    b is not None and not (
                        b.shape == p.grad.shape and b.dtype == p.grad.dtype
                        and torch.equal(
                            torch.nan_to_num(b, nan=12345.0),
                            torch.nan_to_num(p.grad, nan=12345.0)))):
                self.bad('C10.unregistered_grad_changed', param=n, it=it)
        for n, p in model.named_parameters():
            if n in before_meta:
                g = p.grad
                meta = (tuple(g.shape), g.dtype, g.device, g.is_contiguous())
                if meta != before_meta[n]:
                    self.bad('C10.grad_meta_changed', param=n,
                             before=str(before_meta[n]), after=str(meta))
                if inputs_finite and not bool(torch.isfinite(g).all()):
                    self.bad('C10.grad_nonfinite', param=n, it=it)
        rec['grads'] = {
            n: (None if p.grad is None else p.grad.detach().clone())
            for n, p in model.named_parameters()
        }
        rec['G_after'] = {n: models.combined_grad(m) for n, m, _ in self.reg}
        self.opt.step()
        inj = self.plan.get('_inject')
        if inj and rec['i'] in inj['weights']:
            # cross-run comparisons keep the model weights in lock-step so
            # that only K-FAC's own arithmetic is compared (see DESIGN 3.2)
            model.load_state_dict(inj['weights'][rec['i']])
            self.sim.probe('weights_injected')
        if self.plan.get('record_weights') and self.rank == 0:
            rec['weights_after'] = {
                k: v.detach().clone() for k, v in model.state_dict().items()}
        if self.twin is not None:
            self.twin.load_state_dict(model.state_dict())
        # ---- optional boundary monitors (all legal user calls)
        # reading the factors awaits their futures (a legal user call, but
        # also an observer effect that can hide a missing wait), so even
        # when the monitor is on it skips about a third of the boundaries
        if (self.mon.get('read_factors') and models._mix(
                plan['data_seed'], it, 7) % 100 < 67) or op.get(
                    'read_factors'):
            rec['factors'] = self._read_factors()
        if self.mon.get('memory') and not self.emulate:
            self._memory_monitor(rec)
        me = self.rank
        rec['traffic'] = [
            e for e in self.sim.log[log0:]
            if len(e) > 8 and e[1] == me and e[8] == 'kfac'
        ]

    def _read_factors(self) -> dict[str, Any]:
        sd = self.pre.state_dict()
        out = {}
        for name, f in sd.get('layers', {}).items():
            out[name] = {
                k: (None if v is None else v.detach().clone())
                for k, v in f.items()
            }
        return out

    def _layers_by_name(self) -> dict[str, Any]:
        K = self.kfac
        out = {}
        for layer in find_instances(self.pre, K.layers.base.KFACBaseLayer):
            helper = layer.module
            mod = getattr(helper, 'module', None)
            name = self.reg_by_id.get(id(mod))
            if name is not None:
                out[name] = layer
        return out

    def _memory_monitor(self, rec: dict[str, Any]) -> None:
        K = self.kfac
        mu = self.pre.memory_usage()
        sd = self.pre.state_dict()
        excl = (K.layers.modules.ModuleHelper,
                K.distributed.TorchDistributedCommunicator)
        total = 0
        holding = {}
        for name, layer in sorted(self._layers_by_name().items()):
            fa = sd['layers'][name]['A']
            fg = sd['layers'][name]['G']
            second = 0
            for t in held_tensors(layer, excl):
                total += t.numel() * t.element_size()
                if t is fa or t is fg:
                    continue
                second += 1
            holding[name] = second
            if self.assignment is not None:
                gw = bool(self.assignment.is_grad_worker(name))
                if (second > 0) != gw:
                    self.bad('C13.holding', layer=name, is_grad_worker=gw,
                             second_order_tensors=second,
                             steps=self.pre.steps)
        if mu.get('total') != total:
            self.bad('C13.memory_usage', reported=dict(mu), held=total)
        rec['holding'] = holding
        rec['mem_total'] = total
        self.sim.probe('memory_monitor')

    def op_eval(self, op: dict[str, Any], rec: dict[str, Any]) -> None:
        model, pre = self.model, self.pre
        sd0 = self._read_factors() if self.mon.get('read_factors') else None
        before = _tensor_state(pre, self.kfac)
        log0 = len(self.sim.log)
        model.eval()
        self.opt.zero_grad(set_to_none=True)
        vr = self.rank
        self._fwd_bwd(model, op['it'], vr, 0, 1, False)
        self.opt.zero_grad(set_to_none=True)
        model.train()
        after = _tensor_state(pre, self.kfac)
        diff = _state_equal(before, after)
        if diff:
            self.bad('C10.eval_changed_kfac_state', keys=diff[:6])
        if sd0 is not None:
            sd1 = self._read_factors()
            for n in sd0:
                for f in ('A', 'G'):
                    a, b = sd0[n][f], sd1[n][f]
                    if (a is None) != (b is None) or (
                            a is not None and not _teq(a, b)):
                        self.bad('C04.factor_changed_by_eval', layer=n,
                                 factor=f)
        me = self.rank
        if any(len(e) > 8 and e[1] == me and e[8] == 'kfac'
               for e in self.sim.log[log0:]):
            self.bad('C03.collective_in_eval_pass')
        self.sim.probe('eval_pass')

    def _eval_probe(self, it: int) -> None:
        """An eval-mode forward + backward INSIDE a training iteration (a
        validation probe between micro-batches): it must leave every bit of
        K-FAC state alone and must not communicate.  Gradients are taken
        with autograd.grad, so the accumulating .grad fields are untouched."""
        model, pre, plan = self.model, self.pre, self.plan
        before = _tensor_state(pre, self.kfac)
        log0 = len(self.sim.log)
        cap, self.capturing = getattr(self, 'capturing', False), False
        model.eval()
        x, y = models.batch(plan['model'], plan['data_seed'], 5000 + it,
                            self.rank, 7)
        out = models.forward(model, plan['model'], x)
        loss = models.loss_fn(out, y, 1.0)
        ps = [p for p in model.parameters() if p.requires_grad]
        torch.autograd.grad(loss, ps, allow_unused=True)
        model.train()
        self.capturing = cap
        diff = _state_equal(before, _tensor_state(pre, self.kfac))
        if diff:
            self.bad('C10.eval_changed_kfac_state', keys=diff[:6],
                     where='inside_iteration')
        me = self.rank
        if any(len(e) > 8 and e[1] == me and e[8] == 'kfac'
               for e in self.sim.log[log0:]):
            self.bad('C03.collective_in_eval_pass', where='inside_iteration')
        self.sim.probe('eval_pass_inside_iteration')

    def op_nop(self, op: dict[str, Any], rec: dict[str, Any]) -> None:
        return

    def op_reset(self, op: dict[str, Any], rec: dict[str, Any]) -> None:
        self.pre.reset_batch()
        self.sim.probe('reset_batch_at_boundary')

    def op_memq(self, op: dict[str, Any], rec: dict[str, Any]) -> None:
        if self.rank in op['ranks']:
            rec['mem'] = dict(self.pre.memory_usage())
            self.sim.probe('memory_query_subset')

    def op_sched(self, op: dict[str, Any], rec: dict[str, Any]) -> None:
        if self.sched_obj is None:
            return
        if op.get('val_first'):
            # the epoch structure of the repository's examples: train,
            # validate in eval mode, then step the K-FAC scheduler
            self.op_eval({'op': 'eval', 'it': 2000 + self.pre.steps}, {})
            self.sim.probe('eval_pass_before_scheduler_step')
        if self.mon.get('read_hps'):
            # logging the hyper-parameters right after step() and before the
            # scheduler moves them is as legal as reading them anywhere else
            rec['hp_before'] = {k: getattr(self.pre, k)
                                for k in hpmod.HP_NAMES}
        for r in self.sched_lambdas.values():
            r.calls.clear()
        rec['pre_steps'] = self.pre.steps
        if op.get('step') is None:
            self.sched_obj.step()
        else:
            self.sched_obj.step(op['step'])
        rec['lambda_calls'] = {k: list(v.calls)
                               for k, v in self.sched_lambdas.items()}
        rec['hp_values'] = {k: getattr(self.pre, k)
                            for k in hpmod.HP_NAMES
                            if 'c' in self.plan['hps'][k]}
        self.sim.probe('sched_step')

    def op_save(self, op: dict[str, Any], rec: dict[str, Any]) -> None:
        ranks = op.get('ranks')
        if ranks is not None and self.rank not in ranks:
            return
        inc_f = op.get('include_factors', True)
        sd = self.pre.state_dict(include_factors=inc_f)
        rec['saved'] = True
        rec['steps'] = sd['steps']
        rec['consts'] = {k: sd[k] for k in hpmod.HP_NAMES if k in sd}
        if inc_f:
            rec['factors'] = {
                n: {k: (None if v is None else v.detach().clone())
                    for k, v in f.items()}
                for n, f in sd['layers'].items()
            }
        writer = min(ranks) if ranks is not None else 0
        if inc_f and any(f['A'] is None or f['G'] is None
                         for f in sd['layers'].values()):
            # a state taken before the first factor update holds A=G=None and
            # documents itself as not invertible; the simulated user does
            # not overwrite a checkpoint with it (outside the domain of C09)
            self.sim.probe('save_skipped_no_factors_yet')
            rec['skipped'] = True
            return
        if self.rank == writer:
            self.store.ckpt = {
                'kfac': _ser(sd), 'model': _ser(self.model.state_dict()),
                'opt': _ser(self.opt.state_dict()), 'op_index': rec['i'],
                'inc': self.inc, 'ext_it': self.ext.it,
            }
            self.store.n_saves += 1
        self.sim.probe('checkpoint_saved')

    def op_crash_arm(self, op: dict[str, Any], rec: dict[str, Any]) -> None:
        if self.sim.cfg.crash_at_event is None:
            self.sim.cfg.crash_at_event = self.sim.n_events + op['events']

    def op_query(self, op: dict[str, Any], rec: dict[str, Any]) -> None:
        a = self.assignment
        if a is None:
            return
        rec['assignment'] = {
            n: {
                'inv': {f: a.inv_worker(n, f) for f in a.get_factors(n)},
                'gw': a.is_grad_worker(n), 'src': a.src_grad_worker(n),
            }
            for n in a.get_layers()
        }


# ---------------------------------------------------------------------------
# plan execution
# ---------------------------------------------------------------------------


def split_incarnations(ops: list[dict[str, Any]]) -> list[dict[str, Any]]:
    """-> [{'ops': [(index, op)...], 'restart_op': op-or-None}]"""
    incs: list[dict[str, Any]] = [{'ops': [], 'restart_op': None}]
    for i, op in enumerate(ops):
        if op['op'] == 'restart':
            incs.append({'ops': [], 'restart_op': op})
        else:
            incs[-1]['ops'].append((i, op))
    return incs


def make_chooser(plan: dict[str, Any], inc: int, tapes: Any) -> Any:
    if tapes is not None:
        return sched.TapeChooser(tapes[inc] if inc < len(tapes) else [])
    s = plan['sim']
    rng = random.Random(s['sched_seed'] * 1000003 + inc)
    return sched.PolicyChooser(rng, s['policy'], plan['world'])


def execute(plan: dict[str, Any], tapes: Any = None,
            inject: Any = None) -> dict[str, Any]:
    """Run one plan; returns observations of every incarnation."""
    _wrap_linalg()
    torch.set_num_threads(1)
    _kfac()
    store = Store()
    incs = split_incarnations(plan['ops'])
    out: dict[str, Any] = {'incs': [], 'status': 'ok'}
    s = plan['sim']
    for k, inc in enumerate(incs):
        cfg = core.SimCfg(
            poison=s.get('poison', False) and not s.get('late_read'),
            late_read=s.get('late_read', False),
            fifo=not s.get('unordered', False),
            latency=s.get('latency', 1e-4),
            bandwidth=s.get('bandwidth', 1e9),
            initialized=plan.get('initialized', True),
            max_actions=s.get('max_actions', 200000),
            local_size=s.get('local_size'),
        )
        sim = core.Sim(plan['world'], make_chooser(plan, k, tapes), cfg)
        p2 = dict(plan)
        p2['_restart_op'] = inc['restart_op']
        p2['_inject'] = inject
        p2['_boot_ckpt'] = store.ckpt
        envs: dict[int, RankEnv] = {}

        def prog(rank: int, p2: Any = p2, inc: Any = inc, k: int = k,
                 sim: Any = sim, envs: Any = envs) -> Any:
            env = RankEnv.__new__(RankEnv)
            envs[rank] = env
            env.records = []
            env.local_violations = []
            env.__init__(p2, rank, store, k, sim)
            env.run_ops(inc['ops'])
            return None

        ckpt_before = store.ckpt
        with core.patched():
            status = sim.run(prog)
        rank_errors = {
            r.idx: {'error': repr(r.error), 'tb': r.error_tb[-3000:],
                    'phase': getattr(envs.get(r.idx), 'phase', '?')}
            for r in sim.ranks if r.error is not None
        }
        res = {
            'status': status, 'violations': sim.violations,
            'local_violations': [
                v for r in sorted(envs) for v in envs[r].local_violations],
            'probes': sim.probes, 'faults': sim.fault_counts,
            'n_actions': sim.n_actions, 'n_events': sim.n_events,
            'multi_enabled': sim.multi_enabled, 'sim_time': sim.now,
            'decisions': sim.decisions, 'log': sim.log,
            'deadlock': sim.deadlock_info, 'rank_errors': rank_errors,
            'pending': sim.pending_ops() if status == 'ok' else [],
            'open_futures': sorted(
                getattr(f, '_sim_label', 'future')
                for f in sim.open_futures.values())
            if status == 'ok' else [],
            'records': {r: envs[r].records for r in sorted(envs)},
            'event_digest': sim.event_digest(),
            'restart_op': inc['restart_op'],
            'ckpt_op_index': None if store.ckpt is None
            else store.ckpt['op_index'],
            'ckpt_inc': None if store.ckpt is None else store.ckpt['inc'],
            'ckpt_before': None if ckpt_before is None
            else ckpt_before['op_index'],
        }
        out['incs'].append(res)
        if status not in ('ok', 'crash'):
            out['status'] = status
            break
    gc.collect()
    return out


def _bytes(t: torch.Tensor) -> bytes:
    return t.detach().contiguous().reshape(-1).view(torch.uint8).numpy(
    ).tobytes()


def value_digest(result: dict[str, Any]) -> str:
    h = hashlib.sha256()
    for inc in result['incs']:
        for r in sorted(inc['records']):
            for rec in inc['records'][r]:
                for n, g in sorted((rec.get('grads') or {}).items()):
                    if g is not None:
                        h.update(n.encode())
                        h.update(_bytes(g))
                for n, f in sorted((rec.get('factors') or {}).items()):
                    for k in ('A', 'G'):
                        if f.get(k) is not None:
                            h.update(_bytes(f[k]))
    return h.hexdigest()[:24]


def event_digest(result: dict[str, Any]) -> str:
    h = hashlib.sha256()
    for inc in result['incs']:
        h.update(inc['event_digest'].encode())
        h.update(inc['status'].encode())
    return h.hexdigest()[:24]


def plan_copy(plan: dict[str, Any]) -> dict[str, Any]:
    return copy.deepcopy(plan)
