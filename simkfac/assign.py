"""Construction-phase worlds for C06 (KAISA) and C12 (GPT-NeoX assignment).

Every rank of a simulated world builds its own assignment object through the
real constructor; process-group creation goes through a recorder that plays
the role of torch.distributed.new_group.  Construction never blocks, so the
ranks are instantiated one after another with the simulated rank identity
switched between them (DESIGN 5/C06).
"""

from __future__ import annotations

import random
from typing import Any


def gen_work(rng: random.Random, n_layers: int, factors: tuple = ('A', 'G'),
             ) -> dict[str, dict[str, float]]:
    style = rng.choice(['random', 'ties', 'zeros', 'wide', 'cubic', 'huge'])
    work: dict[str, dict[str, float]] = {}
    names = [f'layer{i}' for i in range(n_layers)]
    rng.shuffle(names)
    for n in names:
        d = {}
        for f in factors:
            if style == 'ties':
                c: float = rng.choice([1, 1, 2])
            elif style == 'zeros':
                c = rng.choice([0, 0, 1, 3])
            elif style == 'wide':
                c = rng.choice([1e-3, 1.0, 1e6, 7.5])
            elif style == 'cubic':
                c = rng.randint(1, 12) ** 3
            elif style == 'huge':
                # n**3 of realistic factor sizes next to tiny ones: loads
                # whose differences are below float32 resolution
                c = rng.choice([4096 ** 3, 4096 ** 3 + 1, 256 ** 3 + 1,
                                256 ** 3, 8 ** 3, 16 ** 3, 1024 ** 3])
            else:
                c = rng.randint(0, 50)
            d[f] = c
        work[n] = d
    return work


# ---------------------------------------------------------------------------
# C06
# ---------------------------------------------------------------------------


def check_kaisa(plan: dict[str, Any], bad: Any, stats: Any) -> None:
    from kfac.assignment import KAISAAssignment

    W, k = plan['world'], plan['k']
    work = plan['work']
    colocate = plan['colocate']
    frac = k / W
    calls: dict[int, list[tuple]] = {r: [] for r in range(W)}
    asg: dict[int, Any] = {}
    ranks = range(W) if W <= plan.get('full_below', 1 << 30) \
        else plan['sample_ranks']
    for r in ranks:
        def group_func(members: list[int], r: int = r) -> Any:
            t = tuple(sorted(members))
            calls[r].append(t)
            return ('group', t)
        try:
            asg[r] = KAISAAssignment(
                work, local_rank=r, world_size=W, grad_worker_fraction=frac,
                group_func=group_func, colocate_factors=colocate)
        except Exception as e:  # noqa: BLE001
            bad('C06.fraction_rejected', world=W, k=k, rank=r,
                error=repr(e))
            return
    stats['assignments_built'] += len(asg)
    # a second, different assignment over the same layer names built in the
    # same process (another model, another preconditioner) must not change
    # what the first one answers
    decoy_rng = random.Random(len(work) * 7919 + W * 31 + k)
    decoy_work = {n: {f: float(decoy_rng.choice([1, 5, 9, 2]))
                      for f in fs} for n, fs in work.items()}
    decoy_k = decoy_rng.choice([d for d in range(1, W + 1) if W % d == 0])
    for r in list(asg)[:4]:
        KAISAAssignment(decoy_work, local_rank=r, world_size=W,
                        grad_worker_fraction=decoy_k / W,
                        group_func=lambda members: ('decoy', tuple(sorted(
                            members))), colocate_factors=not colocate)
    stats['decoy_assignments_built'] += 1
    r0 = min(asg)
    a0 = asg[r0]
    layers = list(work)
    cols = KAISAAssignment.partition_grad_workers(W, k)
    rows = KAISAAssignment.partition_grad_receivers(W, k)
    # (2) equal-size partitions of the world
    for name, part, size in (('worker', cols, k), ('receiver', rows, W // k)):
        members = sorted(x for g in part for x in g)
        if members != list(range(W)) or any(len(g) != size for g in part):
            bad('C06.not_a_partition', which=name, world=W, k=k)
    for g in cols:
        for h in rows:
            if len(g & h) != 1:
                bad('C06.row_column_intersection', world=W, k=k)
                break
    for r, a in asg.items():
        try:
            _kaisa_rank_checks(plan, bad, stats, r, a, a0, r0, calls, layers,
                               cols, rows, work, colocate, W, k)
        except Exception as e:  # noqa: BLE001
            bad('C06.query_raised', rank=r, error=repr(e))
    want_groups = {tuple(sorted(g)) for g in cols | rows}
    if set(calls[r0]) != want_groups or len(calls[r0]) != len(want_groups):
        bad('C06.groups_created', world=W, k=k, got=len(calls[r0]),
            want=len(want_groups))


def _kaisa_rank_checks(plan: Any, bad: Any, stats: Any, r: int, a: Any,
                       a0: Any, r0: int, calls: Any, layers: Any, cols: Any,
                       rows: Any, work: Any, colocate: bool, W: int,
                       k: int) -> None:
    if True:
        if set(a.get_layers()) != set(layers):
            bad('C06.layers', rank=r)
        if calls[r] != calls[r0]:
            bad('C06.new_group_order', props=['C06', 'C03'], rank=r,
                world=W, k=k)
        if a.broadcast_gradients() != (k < W) or \
                a.broadcast_inverses() != (k > 1):
            bad('C06.broadcast_flags', rank=r, world=W, k=k,
                grads=a.broadcast_gradients(), invs=a.broadcast_inverses())
        recv_h = None
        for layer in layers:
            stats['layer_rank_checks'] += 1
            invs = {f: a.inv_worker(layer, f) for f in a.get_factors(layer)}
            invs0 = {f: a0.inv_worker(layer, f)
                     for f in a0.get_factors(layer)}
            if invs != invs0:
                bad('C06.inv_worker_disagreement', rank=r, layer=layer,
                    got=invs, other=invs0)
            if set(invs) != set(work[layer]):
                bad('C06.factors', rank=r, layer=layer)
            if any(not (0 <= w < W) for w in invs.values()):
                bad('C06.inv_worker_range', rank=r, layer=layer)
                continue
            col = [g for g in cols if set(invs.values()) <= g]
            if len(col) != 1:
                bad('C06.inv_workers_not_in_one_worker_group', rank=r,
                    layer=layer, invs=invs)
                continue
            col = col[0]
            if colocate and len(set(invs.values())) != 1:
                bad('C06.not_colocated', rank=r, layer=layer, invs=invs)
            if a.is_grad_worker(layer) != (r in col):
                bad('C06.is_grad_worker', rank=r, layer=layer)
            gh = a.grad_worker_group(layer)
            if gh != ('group', tuple(sorted(col))):
                bad('C06.grad_worker_group_handle', rank=r, layer=layer,
                    got=repr(gh))
            row = [g for g in rows if r in g][0]
            rh = a.grad_receiver_group(layer)
            if rh != ('group', tuple(sorted(row))):
                bad('C06.grad_receiver_group_handle', rank=r, layer=layer,
                    got=repr(rh))
            src = a.src_grad_worker(layer)
            if src not in col or src not in row:
                bad('C06.src_grad_worker', rank=r, layer=layer, src=src)
            if r in col and src != r:
                bad('C06.src_of_grad_worker_is_itself', rank=r, layer=layer,
                    src=src)
            if a.factor_group(layer, 'A') is not None:
                bad('C06.factor_group_not_world', rank=r, layer=layer)


def check_fractions(plan: dict[str, Any], bad: Any, stats: Any) -> None:
    """Every k/W with k | W must be accepted (construction of rank 0)."""
    from kfac.assignment import KAISAAssignment

    for W in range(plan['lo'], plan['hi'] + 1):
        for k in range(1, W + 1):
            if W % k:
                continue
            stats['fractions_tried'] += 1
            try:
                a = KAISAAssignment(
                    {}, local_rank=W - 1, world_size=W,
                    grad_worker_fraction=k / W,
                    group_func=lambda ranks: None, colocate_factors=True)
                if a.grad_workers != k:
                    bad('C06.grad_worker_count', world=W, k=k,
                        got=a.grad_workers)
            except Exception as e:  # noqa: BLE001
                bad('C06.fraction_rejected', world=W, k=k, error=repr(e))


def kaisa_enum(tier: str) -> list[dict[str, Any]]:
    top = 64 if tier == 'quick' else 256
    plans = []
    for W in range(1, top + 1):
        for k in range(1, W + 1):
            if W % k:
                continue
            for colocate in (True, False):
                rng = random.Random(W * 100003 + k * 17 + colocate)
                n_layers = rng.choice([0, 1, 2, W // 2 + 1, W + 3, 5])
                sample = sorted(rng.sample(range(W), min(W, 6)))
                plans.append({
                    'kind': 'kaisa', 'world': W, 'k': k,
                    'colocate': colocate,
                    'work': gen_work(rng, n_layers), 'full_below': 24,
                    'sample_ranks': sorted(set(sample) | {0, W - 1}),
                })
    ftop = 1024 if tier == 'quick' else 3072
    for lo in range(1, ftop + 1, 64):
        plans.append({'kind': 'kaisa_fractions', 'lo': lo,
                      'hi': min(ftop, lo + 63)})
    return plans


def gen_kaisa(rng: random.Random, tier: str) -> dict[str, Any]:
    W = rng.randint(1, 48 if tier == 'quick' else 512)
    k = rng.choice([d for d in range(1, W + 1) if W % d == 0])
    n_layers = rng.choice([0, 1, 2, 3, 7, W, W + 5, 2 * W + 1, 30])
    n_layers = min(n_layers, 80)
    factors = rng.choice([('A', 'G'), ('A', 'G'), ('A', 'G', 'X'), ('G',)])
    sample = sorted(rng.sample(range(W), min(W, 8)))
    return {
        'kind': 'kaisa', 'world': W, 'k': k,
        'colocate': rng.random() < 0.5,
        'work': gen_work(rng, n_layers, factors), 'full_below': 32,
        'sample_ranks': sorted(set(sample) | {0, W - 1}),
    }


# ---------------------------------------------------------------------------
# C12
# ---------------------------------------------------------------------------


def ref_greedy(work: dict[str, dict[str, float]],
               peers: list[int]) -> dict[str, int]:
    """Least-loaded greedy over (cost, name) descending, from the statement."""
    loads = {p: 0.0 for p in peers}
    out = {}
    order = sorted(work, key=lambda n: (sum(work[n].values()), n),
                   reverse=True)
    for n in order:
        best = min(peers, key=lambda p: (loads[p], peers.index(p)))
        out[n] = best
        loads[best] += sum(work[n].values())
    return out


def check_neox_assignment(plan: dict[str, Any], bad: Any, stats: Any) -> None:
    import torch.distributed as dist
    from deepspeed.runtime.pipe.topology import PipeModelDataParallelTopology
    from kfac.gpt_neox.assignment import GPTNeoXAssignment

    pp, dp, mp = plan['pipe'], plan['data'], plan['model']
    topo = PipeModelDataParallelTopology(num_pp=pp, num_mp=mp, num_dp=dp)
    W = pp * dp * mp
    dpl = topo.get_axis_comm_lists('data')
    mpl = topo.get_axis_comm_lists('model')
    calls: dict[int, list[tuple]] = {r: [] for r in range(W)}
    asg: dict[int, Any] = {}
    cur = {'r': 0}

    def recorder(ranks: Any = None, *a: Any, **k: Any) -> Any:
        t = tuple(sorted(range(W) if ranks is None else ranks))
        calls[cur['r']].append(t)
        return ('group', t)

    real = dist.new_group
    dist.new_group = recorder
    try:
        for r in range(W):
            cur['r'] = r
            stage = topo.get_coord(r).pipe
            dpg = [g for g in dpl if r in g][0]
            mpg = [g for g in mpl if r in g][0]
            asg[r] = GPTNeoXAssignment(
                plan['work'][str(stage)], local_rank=r, topology=topo,
                data_parallel_group=('group', tuple(dpg)),
                model_parallel_group=('group', tuple(mpg)))
    finally:
        dist.new_group = real
    stats['assignments_built'] += W
    # decoy assignments over the same layer names (see check_kaisa)
    dist.new_group = lambda *a, **k: ('decoy',)
    try:
        for r in range(min(W, 4)):
            stage = topo.get_coord(r).pipe
            w = plan['work'][str(stage)]
            names = list(w)
            decoy = {n: {f: float((i * 7 + 3) % 5 + 1) for f in w[n]}
                     for i, n in enumerate(reversed(names))}
            GPTNeoXAssignment(decoy, local_rank=r, topology=topo,
                              data_parallel_group=None,
                              model_parallel_group=None)
    finally:
        dist.new_group = real
    for r in range(W):
        try:
            _neox_rank_checks(plan, bad, stats, r, asg, topo, dpl, mpl,
                              calls, W)
        except Exception as e:  # noqa: BLE001
            bad('C12.query_raised', rank=r, error=repr(e))


def _neox_rank_checks(plan: Any, bad: Any, stats: Any, r: int, asg: Any,
                      topo: Any, dpl: Any, mpl: Any, calls: Any,
                      W: int) -> None:
    if True:
        a = asg[r]
        stage = topo.get_coord(r).pipe
        work = plan['work'][str(stage)]
        peers = [x for x in range(W) if topo.get_coord(x).pipe == stage]
        want = ref_greedy(work, peers)
        dpg = [g for g in dpl if r in g][0]
        mpg = [g for g in mpl if r in g][0]
        if calls[r] != calls[0]:
            bad('C12.new_group_order', props=['C12', 'C03'], rank=r,
                got=[list(c) for c in calls[r]],
                rank0=[list(c) for c in calls[0]])
        if not a.broadcast_gradients() or a.broadcast_inverses():
            bad('C12.broadcast_flags', rank=r)
        for layer in work:
            stats['layer_rank_checks'] += 1
            invs = {a.inv_worker(layer, f) for f in a.get_factors(layer)}
            if len(invs) != 1:
                bad('C12.factors_split', rank=r, layer=layer)
                continue
            inv = invs.pop()
            if inv not in peers:
                bad('C12.inv_worker_outside_stage', rank=r, layer=layer,
                    inv=inv)
            if inv != want[layer]:
                bad('C12.not_least_loaded_greedy', rank=r, layer=layer,
                    got=inv, want=want[layer])
            inv_dp = [g for g in dpl if inv in g][0]
            inv_mp = [g for g in mpl if inv in g][0]
            fw = a.factor_worker(layer, 'A')
            if fw not in mpg or fw not in inv_dp:
                bad('C12.factor_worker', rank=r, layer=layer, got=fw)
            src = a.src_grad_worker(layer)
            if src not in dpg or src not in inv_mp or \
                    topo.get_coord(src).model != topo.get_coord(r).model:
                bad('C12.src_grad_worker', rank=r, layer=layer, got=src)
            if a.is_grad_worker(layer) != (r in inv_mp):
                bad('C12.is_grad_worker', rank=r, layer=layer)
            if a.grad_receiver_group(layer) != ('group', tuple(dpg)):
                bad('C12.grad_receiver_group', rank=r, layer=layer)
        # peer group really spans the stage
        pg = a.pipe_parallel_peer_group
        if pg != ('group', tuple(sorted(peers))):
            bad('C12.peer_group', rank=r, got=repr(pg))


def gen_neox_assignment(rng: random.Random, tier: str) -> dict[str, Any]:
    cap = 32 if tier == 'quick' else 64
    while True:
        pp, dp, mp = rng.randint(1, 4), rng.randint(1, 6), rng.randint(1, 4)
        if pp * dp * mp <= cap:
            break
    work = {}
    for s in range(pp):
        w = gen_work(rng, rng.choice([0, 1, 2, 3, 5, 9]))
        work[str(s)] = {f'{s}.{n}': c for n, c in w.items()}
    return {'kind': 'neox_assign', 'pipe': pp, 'data': dp, 'model': mp,
            'work': work}


def neox_enum(tier: str) -> list[dict[str, Any]]:
    cap = 32 if tier == 'quick' else 64
    plans = []
    for pp in range(1, 5):
        for dp in range(1, 7):
            for mp in range(1, 5):
                if pp * dp * mp > cap:
                    continue
                rng = random.Random(pp * 10007 + dp * 101 + mp)
                work = {}
                for s in range(pp):
                    w = gen_work(rng, rng.choice([1, 2, 4, 7]))
                    work[str(s)] = {f'{s}.{n}': c for n, c in w.items()}
                plans.append({'kind': 'neox_assign', 'pipe': pp,
                              'data': dp, 'model': mp, 'work': work})
    return plans


# ---------------------------------------------------------------------------
# hash-seed fault: every rank is its own interpreter with its own string-hash
# seed (torchrun/mpirun/spawn); an assignment that iterates a set of layer
# names differs between ranks only then, never inside one process.
# ---------------------------------------------------------------------------

_HASHSEED_CODE = r"""
import json, sys, warnings
warnings.filterwarnings('ignore')
repo, stubs, target = sys.argv[1], sys.argv[2], sys.argv[3]
sys.path.insert(0, stubs); sys.path.insert(0, repo)
cfgs = json.load(sys.stdin)
out = []
if target == 'kaisa':
    from kfac.assignment import KAISAAssignment
    for c in cfgs:
        res = {}
        for r in c['ranks']:
            a = KAISAAssignment(c['work'], local_rank=r, world_size=c['world'],
                                grad_worker_fraction=c['k'] / c['world'],
                                group_func=lambda ranks: None,
                                colocate_factors=c['colocate'])
            res[r] = {l: [a.inv_worker(l, f) for f in sorted(c['work'][l])]
                      + [a.src_grad_worker(l), a.is_grad_worker(l)]
                      for l in sorted(c['work'])}
        out.append(res)
else:
    import torch.distributed as dist
    dist.new_group = lambda *a, **k: None
    from deepspeed.runtime.pipe.topology import PipeModelDataParallelTopology
    from kfac.gpt_neox.assignment import GPTNeoXAssignment
    for c in cfgs:
        topo = PipeModelDataParallelTopology(num_pp=c['pipe'], num_mp=c['model'], num_dp=c['data'])
        res = {}
        for r in range(c['pipe'] * c['data'] * c['model']):
            w = c['work'][str(topo.get_coord(r).pipe)]
            a = GPTNeoXAssignment(w, local_rank=r, topology=topo,
                                  data_parallel_group=None, model_parallel_group=None)
            res[r] = {l: [a.inv_worker(l, 'A'), a.factor_worker(l, 'A'),
                          a.src_grad_worker(l), a.is_grad_worker(l)]
                      for l in sorted(w)}
        out.append(res)
print(json.dumps(out, sort_keys=True))
"""


def check_hashseed(plan: dict[str, Any], bad: Any, stats: Any) -> None:
    import json
    import os
    import subprocess
    import sys

    from simkfac.runner import REPO, VERIF

    outs = {}
    for hs in plan['hashseeds']:
        env = dict(os.environ, PYTHONHASHSEED=str(hs))
        pr = subprocess.run(
            [sys.executable, '-c', _HASHSEED_CODE, REPO,
             os.path.join(VERIF, 'stubs'), plan['target']],
            input=json.dumps(plan['configs']), capture_output=True,
            text=True, env=env, timeout=1500)
        if pr.returncode != 0:
            bad(f'{plan["prop"]}.query_raised', hashseed=hs,
                error=pr.stderr[-600:])
            return
        outs[hs] = json.loads(pr.stdout.strip().splitlines()[-1])
        stats['hashseed_interpreters'] += 1
    base_hs = plan['hashseeds'][0]
    for hs in plan['hashseeds'][1:]:
        for i, (a, b) in enumerate(zip(outs[base_hs], outs[hs])):
            stats['hashseed_comparisons'] += 1
            if a != b:
                diff = [(r, l) for r in a for l in a[r]
                        if a[r][l] != b.get(r, {}).get(l)]
                bad(f'{plan["prop"]}.assignment_depends_on_hash_seed',
                    config=i, hashseeds=[base_hs, hs], first=diff[:4],
                    world=plan['configs'][i].get('world'))
                break


def hashseed_plans(target: str) -> list[dict[str, Any]]:
    rng = random.Random(4242)
    names = [f'block.{i}.{p}' for i in range(6)
             for p in ('attn', 'mlp.fc', 'mlp.proj')] + ['embed', 'head']
    cfgs = []
    if target == 'kaisa':
        for W, k in ((4, 2), (4, 4), (6, 3), (8, 2), (3, 1)):
            for colocate in (True, False):
                layers = rng.sample(names, rng.randint(4, 12))
                # many exact ties between layers, as in repeated blocks
                work = {n: {'A': float(rng.choice([8, 8, 27])),
                            'G': float(rng.choice([8, 27, 27]))}
                        for n in layers}
                cfgs.append({'world': W, 'k': k, 'colocate': colocate,
                             'work': work, 'ranks': list(range(W))})
        return [{'kind': 'hashseed', 'target': 'kaisa', 'prop': 'C06',
                 'hashseeds': [0, 1, 12345, 987654321], 'configs': cfgs}]
    for pp, dp, mp in ((1, 2, 2), (2, 2, 1), (2, 2, 2), (1, 4, 1)):
        work = {}
        for s_ in range(pp):
            layers = rng.sample(names, rng.randint(3, 8))
            work[str(s_)] = {f'{s_}.{n}': {'A': float(rng.choice([8, 8, 27])),
                                          'G': 8.0} for n in layers}
        cfgs.append({'pipe': pp, 'data': dp, 'model': mp, 'work': work})
    return [{'kind': 'hashseed', 'target': 'neox', 'prop': 'C12',
             'hashseeds': [0, 1, 12345, 987654321], 'configs': cfgs}]
