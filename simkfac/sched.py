"""Choosers: every scheduling decision comes from here, hence from one PRNG."""

from __future__ import annotations

import random
from typing import Any

POLICIES = (
    'uniform', 'run_until_block', 'lazy', 'eager', 'round_robin',
    'straggler',
)


class PolicyChooser:
    """Fills the choice tape on the fly from a seeded PRNG and a policy."""

    def __init__(self, rng: random.Random, policy: str, world: int) -> None:
        self.rng = rng
        self.policy = policy
        self.world = world
        self.last: tuple | None = None
        self.rr = 0
        self.stalled: set[int] = set()
        self.stall_left = 0
        self.stall_fired = 0
        self.reorder_fired = 0

    def _maybe_stall(self) -> None:
        if self.policy != 'straggler':
            return
        if self.stall_left > 0:
            self.stall_left -= 1
            if self.stall_left == 0:
                self.stalled = set()
            return
        if self.world > 1 and self.rng.random() < 0.05:
            k = self.rng.randint(1, max(1, self.world // 2))
            self.stalled = set(self.rng.sample(range(self.world), k))
            self.stall_left = self.rng.randint(5, 60)

    def pick(self, enabled: list[tuple], sim: Any) -> int:
        n = len(enabled)
        if n == 1:
            self.last = enabled[0]
            return 0
        p = self.policy
        idx = None
        runs = [i for i, a in enumerate(enabled) if a[0] == 'run']
        comps = [i for i, a in enumerate(enabled) if a[0] == 'complete']
        if p == 'uniform':
            idx = self.rng.randrange(n)
        elif p == 'run_until_block':
            if self.last in enabled and self.last[0] == 'run' \
                    and self.rng.random() < 0.95:
                idx = enabled.index(self.last)
            else:
                idx = self.rng.randrange(n)
        elif p == 'lazy':
            idx = self.rng.choice(runs) if runs else self.rng.choice(comps)
        elif p == 'eager':
            idx = self.rng.choice(comps) if comps else self.rng.choice(runs)
        elif p == 'round_robin':
            self.rr += 1
            idx = self.rr % n
        elif p == 'straggler':
            self._maybe_stall()
            ok = [
                i for i, a in enumerate(enabled)
                if not (a[0] == 'run' and a[1] in self.stalled)
            ]
            if ok and len(ok) < n:
                self.stall_fired += 1
                sim.fault('straggler_stall')
            idx = self.rng.choice(ok) if ok else self.rng.randrange(n)
        else:
            raise ValueError(p)
        if len(comps) > 1 and enabled[idx][0] == 'complete' \
                and idx != comps[0]:
            sim.fault('cross_group_reorder')
        if comps and enabled[idx][0] == 'run':
            sim.fault('completion_delay')
        self.last = enabled[idx]
        return idx


class TapeChooser:
    """Replays an explicit tape; past its end takes the first action."""

    def __init__(self, tape: list[int]) -> None:
        self.tape = list(tape)
        self.i = 0

    def pick(self, enabled: list[tuple], sim: Any) -> int:
        if self.i < len(self.tape):
            v = self.tape[self.i] % len(enabled)
        else:
            v = 0
        self.i += 1
        return v
