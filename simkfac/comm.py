"""W-comm: random call sequences against TorchDistributedCommunicator."""

from __future__ import annotations

import random
from typing import Any

import torch

from simkfac import core, sched
from simkfac.models import DTYPES as _FLOAT_DTYPES

# integer tensors are legal arguments too: a sum keeps the dtype, an average
# promotes to the default float dtype ("(1 / n) * t"), bucketed or not
DTYPES = dict(_FLOAT_DTYPES, int32=torch.int32, int64=torch.int64)

ELSIZE = {'float32': 4, 'float64': 8, 'float16': 2, 'bfloat16': 2,
          'int32': 4, 'int64': 8}


def grid_groups(world: int, rows: int) -> dict[str, list[list[int]]]:
    cols = world // rows
    return {
        'row': [list(range(r * cols, (r + 1) * cols)) for r in range(rows)],
        'col': [list(range(c, world, cols)) for c in range(cols)],
        'self': [[r] for r in range(world)],
    }


def group_of(plan: dict[str, Any], name: str, rank: int) -> Any:
    """Members of `rank`'s group of that name (None: rank is not in 'sub')."""
    if name == 'world':
        return list(range(plan['world']))
    if name == 'sub':
        # a group that is not part of a partition: only its members use it,
        # so they interleave it with their other groups and the rest do not
        return list(plan['sub']) if rank in plan['sub'] else None
    for g in grid_groups(plan['world'], plan['rows'])[name]:
        if rank in g:
            return g
    raise ValueError(name)


def make_tensor(call: dict[str, Any], cid: int, rank: int) -> torch.Tensor:
    """Integer-valued, rank- and position-revealing contents."""
    dt = DTYPES[call['dtype']]
    shape = call['shape']
    n = 1
    for s in shape:
        n *= s
    small = call['dtype'] in ('float16', 'bfloat16')
    if call.get('symmetric_data'):
        m = shape[0]
        i = torch.arange(m).view(-1, 1).expand(m, m)
        j = torch.arange(m).view(1, -1).expand(m, m)
        lo, hi = torch.minimum(i, j), torch.maximum(i, j)
        if small:
            v = (lo * 3 + hi + cid) % 7 + (rank % 3)
        else:
            v = (rank + 1) * 4096 + (lo * 61 + hi * 7 + cid * 37) % 4096
        t = v.to(dt)
    else:
        idx = torch.arange(n)
        if small:
            v = (idx + cid) % 7 + (rank % 3)
        else:
            v = (rank + 1) * 4096 + (idx * 13 + cid * 37) % 4096
        t = v.to(dt).reshape(shape)
    if call['dtype'] == 'float64':
        # values float32 cannot represent (odd integers above 2**24): a
        # detour through a narrower dtype anywhere on the path shows
        t = t + float(2 ** 33 + 1) * (rank + 1) + float(2 ** 25)
    if call.get('huge') and call['kind'] == 'broadcast' and t.numel() \
            and t.is_floating_point():
        # finite values in the top half of the dtype's range (2x overflows):
        # a broadcast moves them unchanged, any arithmetic on the way may not
        top = {'float16': 1.5 * 2.0 ** 15, 'bfloat16': 1.5 * 2.0 ** 127,
               'float32': 1.5 * 2.0 ** 127, 'float64': 1.5 * 2.0 ** 1023}[
            call['dtype']]
        k = (t.to(torch.float64) % 3).to(torch.float64)
        t = (top * (1.0 - 0.25 * k)).to(dt).reshape(shape)
    if call.get('noncontig') and t.dim() == 2:
        # same values, non-contiguous memory
        t = t.t().contiguous().t()
    return t


def expected(plan: dict[str, Any], call: dict[str, Any], cid: int,
             rank: int) -> torch.Tensor:
    members = group_of(plan, call['group'], rank)
    if call['kind'] == 'broadcast':
        src = members[call['src_pos'] % len(members)]
        return make_tensor(call, cid, src).contiguous()
    if len(members) == 1:
        return make_tensor(call, cid, rank)
    acc = make_tensor(call, cid, members[0]).contiguous().clone()
    for m in members[1:]:
        acc = acc + make_tensor(call, cid, m)
    if call.get('average'):
        acc = (1 / len(members)) * acc
    return acc


def packed_numel(call: dict[str, Any]) -> int:
    n = 1
    for s in call['shape']:
        n *= s
    if call.get('symmetric'):
        m = call['shape'][0]
        return m * (m + 1) // 2
    return n


def is_square(call: dict[str, Any]) -> bool:
    s = call['shape']
    return len(s) == 2 and s[0] == s[1]


# ---------------------------------------------------------------------------
# execution
# ---------------------------------------------------------------------------


def rank_program(plan: dict[str, Any], sim: core.Sim, mode: str) -> Any:
    import kfac.distributed as kd
    import torch.distributed as dist

    def prog(rank: int) -> Any:
        tdc = kd.TorchDistributedCommunicator(bucket_cap_mb=plan['cap_mb'])
        handles: dict[str, Any] = {'world': None}
        gg = grid_groups(plan['world'], plan['rows'])
        for name in plan['group_order']:
            for members in gg[name]:
                h = dist.new_group(members)
                if rank in members:
                    handles[name] = h
        if plan.get('sub'):
            h = dist.new_group(list(plan['sub']))
            if rank in plan['sub']:
                handles['sub'] = h
        out: list[dict[str, Any]] = []
        pending: list[tuple[int, Any]] = []

        def settle() -> None:
            for cid, r in pending:
                v = r.wait() if isinstance(r, kd.Future) else r
                out[cid]['value'] = v.detach().clone()
                out[cid]['held'] = v  # the caller keeps the result around
                out[cid]['was_future'] = isinstance(r, kd.Future)
                out[cid]['contig'] = v.is_contiguous()
            pending.clear()

        for cid, call in enumerate(plan['calls']):
            rec: dict[str, Any] = {'kind': call['kind']}
            out.append(rec)
            if call['kind'] == 'flush':
                ev0 = len(sim.log)
                tdc.flush_allreduce_buckets()
                if call.get('settle'):
                    settle()
                if call.get('twice'):
                    n0 = sum(1 for e in sim.log if len(e) > 8 and e[1] == rank)
                    tdc.flush_allreduce_buckets()
                    n1 = sum(1 for e in sim.log if len(e) > 8 and e[1] == rank)
                    rec['second_flush_posts'] = n1 - n0
                continue
            if group_of(plan, call['group'], rank) is None:
                rec['skipped'] = True
                continue
            t = make_tensor(call, cid, rank)
            kind = call['kind']
            if mode == 'plain' and kind == 'allreduce_bucketed':
                kind = 'allreduce'
            sym = bool(call.get('symmetric'))
            if mode == 'dense':
                sym = False
            n0 = sum(1 for e in sim.log if len(e) > 8 and e[1] == rank)
            try:
                if kind == 'broadcast':
                    members = group_of(plan, call['group'], rank)
                    r = tdc.broadcast(
                        t, src=members[call['src_pos'] % len(members)],
                        group=handles[call['group']], symmetric=sym)
                else:
                    r = getattr(tdc, kind)(
                        t, average=bool(call.get('average')),
                        group=handles[call['group']], symmetric=sym)
            except kd.NonSquareTensorError:
                n1 = sum(1 for e in sim.log if len(e) > 8 and e[1] == rank)
                rec['rejected'] = True
                rec['posts_on_reject'] = n1 - n0
                continue
            pending.append((cid, r))
        tdc.flush_allreduce_buckets()
        n0 = sum(1 for e in sim.log if len(e) > 8 and e[1] == rank)
        tdc.flush_allreduce_buckets()
        n1 = sum(1 for e in sim.log if len(e) > 8 and e[1] == rank)
        settle()
        for rec in out:
            if 'held' in rec:
                h = rec.pop('held')
                rec['stable'] = bool(
                    h.shape == rec['value'].shape and torch.equal(
                        h, rec['value']))
        return {'calls': out, 'final_second_flush_posts': n1 - n0}

    return prog


def execute(plan: dict[str, Any], mode: str = 'as_planned',
            tape: Any = None) -> dict[str, Any]:
    torch.set_num_threads(1)
    s = plan['sim']
    if tape is not None:
        chooser: Any = sched.TapeChooser(tape)
    else:
        seed = s['sched_seed'] + {'as_planned': 0, 'plain': 1, 'dense': 2}[
            mode]
        chooser = sched.PolicyChooser(random.Random(seed), s['policy'],
                                      plan['world'])
    cfg = core.SimCfg(poison=s.get('poison', False),
                      latency=s.get('latency', 0.0),
                      fifo=not s.get('unordered', False))
    sim = core.Sim(plan['world'], chooser, cfg)
    with core.patched():
        status = sim.run(rank_program(plan, sim, mode))
    return {
        'status': status, 'violations': sim.violations,
        'results': {r.idx: r.result for r in sim.ranks},
        'rank_errors': {r.idx: {'error': repr(r.error), 'tb': r.error_tb}
                        for r in sim.ranks if r.error is not None},
        'log': sim.log, 'probes': sim.probes, 'faults': sim.fault_counts,
        'n_actions': sim.n_actions, 'multi_enabled': sim.multi_enabled,
        'sim_time': sim.now, 'decisions': sim.decisions,
        'deadlock': sim.deadlock_info,
        'pending': sim.pending_ops() if status == 'ok' else [],
        'open_futures': sorted(getattr(f, '_sim_label', 'future')
                               for f in sim.open_futures.values())
        if status == 'ok' else [],
        'event_digest': sim.event_digest(), 'restart_op': None,
    }


# ---------------------------------------------------------------------------
# oracle
# ---------------------------------------------------------------------------


def _same(a: torch.Tensor, b: torch.Tensor) -> bool:
    return a.shape == b.shape and a.dtype == b.dtype and torch.equal(a, b)


def check(plan: dict[str, Any], res: dict[str, Any], mode: str,
          bad: Any, stats: Any) -> None:
    """Value, completion and accounting oracles for one execution."""
    if res['status'] == 'deadlock':
        bad('C08.deadlock', props=['C08', 'C03'], info=res['deadlock'],
            mode=mode)
        return
    if res['status'] == 'rank_error':
        for r, e in res['rank_errors'].items():
            bad('C08.rank_exception', props=['C08', 'C03'], rank=r,
                error=e['error'], tb=e['tb'][-1200:], mode=mode)
        return
    for v in res['violations']:
        bad('C08.transport_' + v['clause'], props=['C08', 'C03'], mode=mode,
            **{k: x for k, x in v.items() if k != 'clause'})
    if res['pending'] or res['open_futures']:
        bad('C08.pending_after_flush', pending=res['pending'][:4],
            futures=res['open_futures'][:4], mode=mode)
    world = plan['world']
    for rank in range(world):
        rr = res['results'][rank]
        if rr['final_second_flush_posts']:
            bad('C08.second_flush_posts', rank=rank, mode=mode)
        for cid, (call, rec) in enumerate(zip(plan['calls'], rr['calls'])):
            if call['kind'] == 'flush':
                if rec.get('second_flush_posts'):
                    bad('C08.second_flush_posts', rank=rank, cid=cid,
                        mode=mode)
                continue
            if rec.get('skipped'):
                continue
            sym = bool(call.get('symmetric')) and mode != 'dense'
            single = len(group_of(plan, call['group'], rank)) == 1
            if sym and not is_square(call) and single:
                # documented: "if group size is 1, no communication is
                # performed and the tensor is returned" -- nothing to reject
                # before; the value oracle below still applies
                stats['nonsquare_in_single_member_group'] += 1
                if rec.get('rejected'):
                    continue
            elif sym and not is_square(call):
                stats['nonsquare_rejections'] += 1
                if not rec.get('rejected'):
                    bad('C14.nonsquare_accepted', rank=rank, cid=cid,
                        shape=call['shape'], mode=mode)
                elif rec['posts_on_reject']:
                    bad('C14.communicated_before_rejecting', rank=rank,
                        cid=cid, mode=mode)
                continue
            if rec.get('rejected'):
                bad('C14.square_rejected', props=['C14', 'C08'], rank=rank,
                    cid=cid, shape=call['shape'], mode=mode)
                continue
            want = expected(plan, call, cid, rank)
            got = rec.get('value')
            stats['values_checked'] += 1
            if rec.get('stable') is False:
                bad('C08.result_changed_after_resolution', rank=rank,
                    cid=cid, call=call, mode=mode)
            if got is None or not _same(got, want.to(got.dtype)) or \
                    got.dtype != want.dtype or \
                    tuple(got.shape) != tuple(call['shape']):
                props = ['C08'] if call['kind'] == 'allreduce_bucketed' \
                    and mode == 'as_planned' else []
                if call.get('symmetric') and mode != 'dense':
                    props.append('C14')
                if not props:
                    props = ['C08']
                bad('C08.value', props=props, rank=rank, cid=cid,
                    call=call, mode=mode,
                    got_dtype=None if got is None else str(got.dtype),
                    got_shape=None if got is None else list(got.shape),
                    maxdiff=None if got is None or got.shape != want.shape
                    else float((got.double() - want.double()).abs().max()))
    # ---- element accounting on the transport, per rank and group
    for rank in range(world):
        seqs: dict[tuple, list[int]] = {}
        for e in res['log']:
            if len(e) > 8 and e[1] == rank and e[0] == 'all_reduce':
                seqs.setdefault(tuple(e[3]), []).append(e[6])
            elif len(e) > 8 and e[1] == rank and e[0] == 'broadcast':
                pass
            elif len(e) > 8 and e[1] == rank:
                bad('C08.unexpected_collective', rank=rank, kind=e[0])
        want_seq: dict[tuple, list[tuple]] = {}
        for cid, call in enumerate(plan['calls']):
            if call['kind'] not in ('allreduce', 'allreduce_bucketed'):
                continue
            if call.get('symmetric') and mode != 'dense' and not is_square(
                    call):
                continue
            if group_of(plan, call['group'], rank) is None:
                continue
            members = tuple(group_of(plan, call['group'], rank))
            if len(members) == 1:
                continue
            sym = bool(call.get('symmetric')) and mode != 'dense'
            numel = packed_numel(call) if sym else packed_numel(
                dict(call, symmetric=False))
            bucketed = call['kind'] == 'allreduce_bucketed' and \
                mode != 'plain'
            want_seq.setdefault(members, []).append(
                (numel, ELSIZE[call['dtype']], bucketed, cid))
        cap = int(plan['cap_mb'] * 1000 * 1000)
        for members in set(seqs) | set(want_seq):
            got_total = sum(seqs.get(members, []))
            want_total = sum(x[0] for x in want_seq.get(members, []))
            stats['accounting_checks'] += 1
            if got_total != want_total:
                bad('C08.elements_communicated', rank=rank,
                    group=list(members), got=got_total, want=want_total,
                    mode=mode,
                    props=['C08', 'C14'] if any(
                        c.get('symmetric') for c in plan['calls'])
                    else ['C08'])
                continue
            # fused sizes must be an order-preserving partition of the
            # bucketed tensors in which no multi-tensor bucket exceeds cap
            # (unbucketed tensors may interleave; checked only when the
            # group saw bucketed traffic exclusively)
            items = want_seq.get(members, [])
            if items and all(x[2] for x in items):
                # (tensors without elements add nothing to a fused buffer
                # and may sit on either side of a cut: left out of the
                # partition matching)
                items = [x for x in items if x[0] > 0]
                sizes = [z for z in seqs.get(members, []) if z > 0]
                i = 0
                ok = True
                for fused in sizes:
                    acc, cnt, by = 0, 0, 0
                    while i < len(items) and acc < fused:
                        acc += items[i][0]
                        by += items[i][0] * items[i][1]
                        cnt += 1
                        i += 1
                    if acc != fused:
                        ok = False
                        break
                    if cnt > 1 and by > cap:
                        bad('C08.bucket_exceeds_capacity', rank=rank,
                            group=list(members), bytes=by, cap=cap,
                            tensors=cnt)
                    if cnt > 1:
                        stats['multi_tensor_buckets'] += 1
                    if cnt == 1 and by > cap:
                        stats['oversized_single_tensor_bucket'] += 1
                if not ok or i != len(items):
                    bad('C08.not_a_partition_of_the_tensors', rank=rank,
                        group=list(members), fused=sizes,
                        tensors=[x[0] for x in items])


def compare_modes(plan: dict[str, Any], a: dict[str, Any],
                  b: dict[str, Any], clause: str, props: list[str],
                  bad: Any, stats: Any) -> None:
    """Results of two executions of the same sequence must be identical."""
    if a['status'] != 'ok' or b['status'] != 'ok':
        return
    for rank in range(plan['world']):
        for cid, (x, y) in enumerate(zip(a['results'][rank]['calls'],
                                         b['results'][rank]['calls'])):
            if 'value' in x and 'value' in y:
                stats['differential_comparisons'] += 1
                if not _same(x['value'], y['value']):
                    bad(clause, props=props, rank=rank, cid=cid,
                        call=plan['calls'][cid])


# ---------------------------------------------------------------------------
# generators
# ---------------------------------------------------------------------------


def gen_comm_plan(rng: random.Random, *, tier: str, symmetric_only: bool,
                  mixed_dtypes: bool = False) -> dict[str, Any]:
    world = rng.choice([1, 2, 2, 3, 4, 4, 6] if tier == 'quick'
                       else [1, 2, 3, 4, 4, 6, 8, 9, 12])
    rows = rng.choice([r for r in range(1, world + 1) if world % r == 0])
    dtype = rng.choice(['float32', 'float32', 'float64', 'bfloat16',
                        'float16'])
    if dtype in ('bfloat16', 'float16') and world > 4:
        dtype = 'float32'
    n_calls = rng.randint(1, 5) if rng.random() < 0.5 else rng.randint(
        5, 14)
    if not mixed_dtypes and n_calls % 7 == 3:
        # integer tensors (no extra draw: older seeds keep their tape)
        dtype = 'int64' if world % 2 else 'int32'
    calls: list[dict[str, Any]] = []
    sizes = []
    # a quarter of the plans hammer one (group, flags) combination so that
    # consecutive multi-tensor buckets of one group and several fill/flush
    # cycles over the same buckets are common, not rare
    focus = None
    if not symmetric_only and rng.random() < 0.25:
        focus = {'group': rng.choice(['world', 'world', 'row', 'col']),
                 'average': rng.random() < 0.4, 'symmetric': False}
    sub = None
    if world >= 3 and rng.random() < 0.3:
        sub = sorted(rng.sample(range(world), rng.randint(2, world - 1)))
    gnames = ['world', 'world', 'row', 'col', 'self'] + (
        ['sub', 'sub'] if sub else [])
    for _ in range(n_calls):
        r = rng.random()
        if r < 0.18 and calls:
            calls.append({'kind': 'flush', 'settle': rng.random() < 0.5,
                          'twice': rng.random() < 0.3})
            continue
        if symmetric_only:
            kind = rng.choice(['allreduce', 'broadcast',
                               'allreduce_bucketed'])
        else:
            kind = rng.choice(['allreduce_bucketed'] * 4
                              + ['allreduce', 'broadcast'])
        sym = rng.random() < (0.85 if symmetric_only else 0.35)
        if sym:
            if rng.random() < 0.12:
                shape = rng.choice([[rng.randint(1, 5), rng.randint(6, 9)],
                                    [rng.randint(2, 6)],
                                    [2, rng.randint(1, 3), 2]])
            else:
                m = rng.randint(1, 12) if rng.random() < 0.8 \
                    else rng.randint(12, 40)
                shape = [m, m]
        else:
            shape = rng.choice([
                [rng.randint(1, 40)],
                [rng.randint(1, 9), rng.randint(1, 9)],
                [rng.randint(1, 4), rng.randint(1, 4), rng.randint(1, 4)],
            ])
            if rng.random() < 0.1:
                # a tensor without elements is still a tensor with a dtype
                shape = rng.choice([[0], [0, rng.randint(1, 4)],
                                    [rng.randint(1, 3), 0]])
        dt = dtype
        if mixed_dtypes and rng.random() < 0.4:
            dt = rng.choice(['float32', 'float64'])
        call = {
            'kind': kind, 'group': rng.choice(gnames),
            'shape': shape, 'dtype': dt, 'symmetric': sym,
            'symmetric_data': sym and len(shape) == 2
            and shape[0] == shape[1],
            'average': rng.random() < 0.5,
            'src_pos': rng.randint(0, 7),
            'noncontig': rng.random() < 0.3,
            'huge': kind == 'broadcast' and rng.random() < 0.3,
        }
        if focus is not None and rng.random() < 0.85:
            call.update(focus, kind='allreduce_bucketed', dtype=dtype,
                        symmetric_data=False)
            if len(call['shape']) == 2 and rng.random() < 0.5:
                call['shape'] = [rng.randint(1, 12)]
        calls.append(call)
        sizes.append(packed_numel(call) * ELSIZE[call['dtype']])
    sizes = sorted(sizes) or [4]
    cap_bytes = rng.choice([
        0, max(1, sizes[0] - 1), sizes[len(sizes) // 2],
        sizes[-1] + sizes[0], sum(sizes) + 8, 25_000_000,
        sizes[0], sizes[-1],
    ])
    return {
        'kind': 'comm', 'world': world, 'rows': rows, 'sub': sub,
        'group_order': rng.sample(['row', 'col', 'self'], 3),
        'cap_mb': cap_bytes / 1e6, 'calls': calls,
        'sim': {
            'policy': rng.choice(sched.POLICIES),
            'poison': rng.random() < 0.6,
            'unordered': rng.random() < 0.3,
            'latency': rng.choice([0.0, 1e-4]),
            'sched_seed': rng.randrange(1 << 30),
        },
    }
