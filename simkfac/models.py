"""Module-tree zoo, seeded data, and the reference's own registration walk."""

from __future__ import annotations

import random
import re
from typing import Any

import torch
from torch import nn

DTYPES = {
    'float32': torch.float32, 'float64': torch.float64,
    'bfloat16': torch.bfloat16, 'float16': torch.float16,
}


class SkipLinear(nn.Linear):
    """Linear subclass whose class name a skip pattern can hit."""


class SkipConv2d(nn.Conv2d):
    """Conv2d subclass whose class name a skip pattern can hit."""


class AdapterLinear(nn.Linear):
    """Linear that owns an (empty) container of sub-modules: it has a child,
    so it is not a leaf of the module tree and K-FAC must leave it alone."""

    def __init__(self, *a: Any, **kw: Any) -> None:
        super().__init__(*a, **kw)
        self.adapters = nn.ModuleList()


class AdapterConv2d(nn.Conv2d):
    def __init__(self, *a: Any, **kw: Any) -> None:
        super().__init__(*a, **kw)
        self.adapters = nn.Sequential()


class MeanOverTokens(nn.Module):
    def forward(self, x: torch.Tensor) -> torch.Tensor:
        return x.mean(dim=1)


class Scale(nn.Module):
    """Unsupported leaf with a parameter (gets a gradient K-FAC must keep)."""

    def __init__(self, n: int) -> None:
        super().__init__()
        self.gain = nn.Parameter(torch.ones(n))

    def forward(self, x: torch.Tensor) -> torch.Tensor:
        return x * self.gain


def _freeze(m: nn.Module, how: str) -> None:
    if how == 'all':
        for p in m.parameters():
            p.requires_grad_(False)
    elif how == 'bias' and getattr(m, 'bias', None) is not None:
        m.bias.requires_grad_(False)


def _make_layer(s: dict[str, Any]) -> nn.Module:
    t = s['t']
    if t == 'linear':
        cls = SkipLinear if s.get('skipcls') else (
            AdapterLinear if s.get('adapter') else nn.Linear)
        m: nn.Module = cls(s['in'], s['out'], bias=s['bias'])
        _freeze(m, s.get('frozen', 'none'))
        return m
    if t == 'conv':
        cls = SkipConv2d if s.get('skipcls') else (
            AdapterConv2d if s.get('adapter') else nn.Conv2d)
        m = cls(s['cin'], s['cout'], tuple(s['k']), stride=tuple(s['s']),
                padding=tuple(s['p']), bias=s['bias'])
        _freeze(m, s.get('frozen', 'none'))
        return m
    if t == 'act':
        return {'relu': nn.ReLU, 'tanh': nn.Tanh, 'gelu': nn.GELU}[s['f']]()
    if t == 'flatten':
        return nn.Flatten()
    if t == 'bn':
        return nn.BatchNorm2d(s['c'])
    if t == 'ln':
        return nn.LayerNorm(s['n'])
    if t == 'emb':
        return nn.Embedding(s['v'], s['n'])
    if t == 'tokmean':
        return MeanOverTokens()
    if t == 'scale':
        return Scale(s['n'])
    if t == 'seq':
        return nn.Sequential(*[_make_layer(x) for x in s['layers']])
    raise ValueError(t)


def build_model(spec: dict[str, Any], seed: int) -> nn.Module:
    """Build the module tree and fill parameters from a private generator."""
    root = nn.Sequential()
    for i, s in enumerate(spec['layers']):
        root.add_module(s.get('name', f'm{i}'), _make_layer(s))
    for alias, target in spec.get('aliases', []):
        # the same module instance reachable under a second name
        root.add_module(alias, root.get_submodule(target))
    g = torch.Generator().manual_seed(seed)
    with torch.no_grad():
        for name, p in sorted(root.named_parameters()):
            if p.dim() > 1:
                fan = p[0].numel()
                p.copy_(torch.randn(p.shape, generator=g) / fan ** 0.5)
            elif name.endswith('gain') or name.endswith('weight'):
                p.copy_(1.0 + 0.1 * torch.randn(p.shape, generator=g))
            else:
                p.copy_(0.1 * torch.randn(p.shape, generator=g))
    root.to(DTYPES[spec['dtype']])
    return root


def forward(model: nn.Module, spec: dict[str, Any],
            x: torch.Tensor) -> torch.Tensor:
    alias_names = {a for a, _ in spec.get('aliases', [])}
    for name, m in model.named_children():
        if name in alias_names:
            continue
        x = m(x)
    return x


def _mix(*xs: int) -> int:
    h = 0x9E3779B97F4A7C15
    for x in xs:
        h = (h ^ (x + 0x7F4A7C15 + (h << 6) + (h >> 2))) & 0xFFFFFFFFFFFF
    return h


def batch(spec: dict[str, Any], data_seed: int, it: int, rank: int,
          micro: int) -> tuple[torch.Tensor, torch.Tensor]:
    """Deterministic (input, target) for one micro-batch of one rank."""
    h = _mix(data_seed, it, rank, micro)
    g = torch.Generator().manual_seed(h)
    lo = spec.get('min_batch', 1)
    bs = lo + h % (spec.get('max_batch', 8) - lo + 1)
    inp = spec['input']
    dt = DTYPES[spec['dtype']]
    if inp['kind'] == 'tokens':
        x = torch.randint(0, inp['v'], (bs, inp['t']), generator=g)
    else:
        x = torch.randn((bs, *inp['shape']), generator=g).to(dt)
        # break symmetry/scale uniformity across features
        x = x * (1.0 + 0.5 * torch.arange(x.shape[-1]).to(dt) / x.shape[-1])
        x = x * spec.get('input_gain', 1.0)
    y = torch.randn((bs, spec['out']), generator=g).to(dt)
    return x, y


def loss_fn(out: torch.Tensor, y: torch.Tensor, gain: float) -> torch.Tensor:
    return gain * 0.5 * ((out - y) ** 2).sum() / out.shape[0] ** 0.5


# ---------------------------------------------------------------------------
# the reference's registration walk (written from the statement of C16)
# ---------------------------------------------------------------------------


def ref_registered(model: nn.Module,
                   skip: list[str]) -> list[tuple[str, nn.Module, str]]:
    out = []
    seen: set[int] = set()
    for name, m in model.named_modules():
        if any(True for _ in m.children()):
            continue
        if id(m) in seen:
            continue
        seen.add(id(m))
        if isinstance(m, nn.Linear):
            kind = 'linear'
        elif isinstance(m, nn.Conv2d):
            kind = 'conv'
        else:
            continue
        if not all(p.requires_grad for p in m.parameters()):
            continue
        cname = type(m).__name__
        if any(re.search(p, name) or re.search(p, cname) for p in skip):
            continue
        out.append((name, m, kind))
    return out


def combined_grad(m: nn.Module) -> torch.Tensor:
    """[weight.grad as (out, -1) | bias.grad] in float64."""
    w = m.weight.grad.detach().to(torch.float64).reshape(m.weight.shape[0], -1)
    if getattr(m, 'bias', None) is not None:
        b = m.bias.grad.detach().to(torch.float64).reshape(-1, 1)
        return torch.cat([w, b], dim=1)
    return w.clone()


# ---------------------------------------------------------------------------
# random model specifications
# ---------------------------------------------------------------------------


def gen_model_spec(rng: random.Random, *, allow_conv: bool = True,
                   max_layers: int = 4, dtype: str | None = None,
                   zoo: bool = True, max_dim: int = 12) -> dict[str, Any]:
    """Draw a random model; shapes are kept small (Kronecker <= ~200)."""
    dtype = dtype or rng.choice(['float32', 'float32', 'float64'])
    layers: list[dict[str, Any]] = []
    skip: list[str] = []
    kind = rng.choice(['mlp', 'mlp', 'conv', 'tok']) if allow_conv \
        else rng.choice(['mlp', 'mlp', 'tok'])
    n_reg = rng.randint(1, max_layers)
    has_bn = False

    def deco(s: dict[str, Any]) -> dict[str, Any]:
        # occasionally make a supported layer ineligible
        if zoo and rng.random() < 0.12:
            s['frozen'] = rng.choice(['all', 'bias']) if s['bias'] else 'all'
        elif zoo and rng.random() < 0.08:
            s['skipcls'] = True
        elif zoo and rng.random() < 0.07:
            s['adapter'] = True
        return s

    if kind == 'conv':
        c, h, w = rng.randint(1, 3), rng.randint(5, 8), rng.randint(5, 8)
        inp = {'kind': 'dense', 'shape': [c, h, w]}
        n_conv = rng.randint(1, min(2, n_reg))
        for _ in range(n_conv):
            kh, kw = rng.randint(1, 3), rng.randint(1, 3)
            sh, sw = rng.randint(1, 2), rng.randint(1, 2)
            ph, pw = rng.randint(0, 1), rng.randint(0, 1)
            if h + 2 * ph < kh or w + 2 * pw < kw:
                kh, kw = 1, 1
            cout = rng.randint(2, 4)
            layers.append(deco({
                't': 'conv', 'cin': c, 'cout': cout, 'k': [kh, kw],
                's': [sh, sw], 'p': [ph, pw], 'bias': rng.random() < 0.7,
            }))
            h = (h + 2 * ph - kh) // sh + 1
            w = (w + 2 * pw - kw) // sw + 1
            c = cout
            if zoo and rng.random() < 0.3 and h * w > 1:
                layers.append({'t': 'bn', 'c': c})
                has_bn = True
            layers.append({'t': 'act', 'f': rng.choice(['relu', 'tanh'])})
        layers.append({'t': 'flatten'})
        feat = c * h * w
        n_lin = max(1, n_reg - n_conv)
        if feat > 24:
            # keep A factors small
            layers.append({'t': 'linear', 'in': feat, 'out': 6, 'bias': True,
                           'frozen': 'all'})
            layers.append({'t': 'act', 'f': 'tanh'})
            feat = 6
    elif kind == 'tok':
        v, t, feat = rng.randint(5, 9), rng.randint(2, 4), rng.randint(3, 6)
        inp = {'kind': 'tokens', 'v': v, 't': t}
        layers.append({'t': 'emb', 'v': v, 'n': feat})
        n_lin = n_reg
    else:
        feat = rng.randint(3, max_dim)
        if rng.random() < 0.35:
            inp = {'kind': 'dense', 'shape': [rng.randint(2, 4), feat]}
        else:
            inp = {'kind': 'dense', 'shape': [feat]}
        n_lin = n_reg
    nd = kind == 'tok' or (kind == 'mlp' and len(inp['shape']) == 2)
    for i in range(n_lin):
        # (a single output unit - scalar regression head, 1x1 G factor)
        out = 1 if zoo and rng.random() < 0.07 else rng.randint(2, max_dim)
        layers.append(deco({'t': 'linear', 'in': feat, 'out': out,
                            'bias': rng.random() < 0.7}))
        feat = out
        if i < n_lin - 1:
            layers.append({'t': 'act',
                           'f': rng.choice(['relu', 'tanh', 'gelu'])})
            if zoo and rng.random() < 0.2 and feat >= 3:
                # (LayerNorm over two features maps everything to +-1 and
                # makes the network arbitrarily ill-conditioned)
                layers.append({'t': 'ln', 'n': feat})
            if zoo and rng.random() < 0.2:
                layers.append({'t': 'scale', 'n': feat})
    if nd:
        layers.append({'t': 'tokmean'})
    # nest some consecutive layers into a container
    if zoo and len(layers) >= 3 and rng.random() < 0.5:
        a = rng.randrange(0, len(layers) - 1)
        b = rng.randint(a + 1, min(len(layers), a + 3))
        layers[a:b] = [{'t': 'seq', 'layers': layers[a:b]}]
    # module names: sometimes from a pool in which names are prefixes and
    # suffixes of each other, so that code matching layers by name has to be
    # exact (a state dict is keyed by these names)
    # ... and names that differ only in letter case
    pool = ['m1', 'M1', 'm11', 'xm1', 'm', '1', 'm1x', 'am', 'A', 'a',
            'm111', 'ma', 'Ma', '11', 'x', 'mm', 'm1m1']
    tricky = zoo and rng.random() < 0.3 and len(layers) <= len(pool)
    for i, s in enumerate(layers):
        s['name'] = pool[i] if tricky else f'm{i}'
    spec: dict[str, Any] = {
        'dtype': dtype, 'layers': layers, 'input': inp, 'out': feat,
        'min_batch': 2 if has_bn else 1, 'max_batch': rng.choice([3, 6, 9]),
    }
    # a name-based skip pattern, and an alias of an existing leaf
    leaves = [
        n for n, m in build_model(spec, 0).named_modules()
        if isinstance(m, (nn.Linear, nn.Conv2d))
    ]
    if zoo and len(leaves) > 1 and rng.random() < 0.15:
        skip.append('^' + re.escape(rng.choice(leaves)) + '$')
    if zoo and rng.random() < 0.5:
        skip.append('Skip')
    if zoo and leaves and rng.random() < 0.15:
        spec['aliases'] = [['zz_alias', rng.choice(leaves)]]
    spec['skip'] = skip
    if not ref_registered(build_model(spec, 0), skip):
        return gen_model_spec(rng, allow_conv=allow_conv,
                              max_layers=max_layers, dtype=dtype, zoo=zoo,
                              max_dim=max_dim)
    return spec
