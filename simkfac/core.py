"""ranksim core: deterministic single-process simulation of a torch.distributed job.

One real thread per rank, exactly one of which holds the baton at any time.
The scheduler (the thread that calls ``Sim.run``) decides, from one seeded
chooser, which rank runs next and which pending collective completes next.

Nothing in here imports kfac.
"""

from __future__ import annotations

import collections.abc
import hashlib
import os
import pickle
import threading
from typing import Any, Callable

import torch
import torch.distributed as dist

_REAL_FUTURE = torch.futures.Future
NON_MEMBER = dist.GroupMember.NON_GROUP_MEMBER

_tl = threading.local()
_ACTIVE: 'Sim | None' = None


class SimAbort(BaseException):
    """Unwinds a rank thread when the simulation ends early."""


class HarnessError(Exception):
    """The harness itself misbehaved (cap hit, internal inconsistency)."""


def cur_rank() -> int:
    r = getattr(_tl, 'rank', None)
    if r is None:
        raise HarnessError('no simulated rank bound to this thread')
    return r


def active() -> 'Sim':
    if _ACTIVE is None:
        raise HarnessError('no active simulation')
    return _ACTIVE


class origin:
    """Context manager tagging collectives issued by harness code."""

    def __init__(self, tag: str) -> None:
        self.tag = tag

    def __enter__(self) -> None:
        self.prev = getattr(_tl, 'origin', 'kfac')
        _tl.origin = self.tag

    def __exit__(self, *a: Any) -> None:
        _tl.origin = self.prev


# ---------------------------------------------------------------------------
# futures
# ---------------------------------------------------------------------------


class SimFuture(_REAL_FUTURE):  # type: ignore[misc]
    """Pure-Python future whose wait() hands the baton to the scheduler."""

    def __init__(self, *a: Any, **k: Any) -> None:
        super().__init__()
        self._sim_done = False
        self._sim_val: Any = None
        self._sim_exc: BaseException | None = None
        self._sim_cbs: list[Callable[['SimFuture'], None]] = []
        sim = _ACTIVE
        self._sim_owner = getattr(_tl, 'rank', None)
        if sim is not None:
            sim.n_futures += 1
            self._sim_id = sim.n_futures
            sim.open_futures[self._sim_id] = self
        else:
            self._sim_id = -1
        self._sim_label = f'local-future#{self._sim_id}/r{self._sim_owner}'

    def done(self) -> bool:
        return self._sim_done

    def wait(self) -> Any:
        sim = _ACTIVE
        if not self._sim_done:
            if sim is None:
                raise HarnessError('wait on unresolved future outside sim')
            sim.probe('wait_unresolved')
            while not self._sim_done:
                sim._yield('blocked', self)
        elif sim is not None:
            sim.probe('wait_resolved')
        if self._sim_exc is not None:
            raise self._sim_exc
        return self._sim_val

    def value(self) -> Any:
        if not self._sim_done:
            raise RuntimeError('value() on a future that is not done')
        if self._sim_exc is not None:
            raise self._sim_exc
        return self._sim_val

    def _resolve(self) -> None:
        self._sim_done = True
        sim = _ACTIVE
        if sim is not None:
            sim.open_futures.pop(self._sim_id, None)
        cbs, self._sim_cbs = self._sim_cbs, []
        prev = getattr(_tl, 'rank', None)
        _tl.rank = self._sim_owner
        try:
            for cb in cbs:
                try:
                    cb(self)
                except SimAbort:
                    raise
                except BaseException as e:  # noqa: BLE001
                    # torch logs and swallows errors raised by done-callbacks
                    # (they run on a foreign thread); here they are recorded
                    if sim is not None:
                        sim.violation('future_callback_raised',
                                      error=repr(e)[:300],
                                      label=getattr(self, '_sim_label', '?'))
        finally:
            _tl.rank = prev

    def set_result(self, result: Any) -> None:
        if self._sim_done:
            raise RuntimeError('future already resolved')
        self._sim_val = result
        self._resolve()

    def set_exception(self, exc: BaseException) -> None:
        if self._sim_done:
            raise RuntimeError('future already resolved')
        self._sim_exc = exc
        self._resolve()

    def then(self, cb: Callable[['SimFuture'], Any]) -> 'SimFuture':
        nxt = SimFuture()
        nxt._sim_owner = self._sim_owner
        nxt._sim_label = getattr(self, '_sim_label',  # type: ignore
                                 'local-future') + '.then'

        def run(f: 'SimFuture') -> None:
            try:
                nxt.set_result(cb(f))
            except SimAbort:
                raise
            except BaseException as e:  # noqa: BLE001
                nxt.set_exception(e)

        if self._sim_done:
            run(self)
        else:
            self._sim_cbs.append(run)
        return nxt

    def add_done_callback(self, cb: Callable[['SimFuture'], None]) -> None:
        if self._sim_done:
            cb(self)
        else:
            self._sim_cbs.append(cb)


class SimWork:
    """What dist.<collective>(async_op=True) returns."""

    def __init__(self, fut: SimFuture) -> None:
        self._fut = fut

    def get_future(self) -> SimFuture:
        return self._fut

    def wait(self) -> bool:
        self._fut.wait()
        return True

    def is_completed(self) -> bool:
        return self._fut.done()


# ---------------------------------------------------------------------------
# groups
# ---------------------------------------------------------------------------


class SimGroup(dist.ProcessGroup):  # type: ignore[misc]
    """Handle a member rank holds for a simulated process group."""

    def __init__(self, gid: tuple, ranks: tuple[int, ...], me: int) -> None:
        super().__init__(ranks.index(me) if me in ranks else 0, len(ranks))
        self.gid = gid
        self.sim_ranks = ranks
        self.me = me

    def __repr__(self) -> str:
        return f'SimGroup{self.gid}'


# ---------------------------------------------------------------------------
# collectives
# ---------------------------------------------------------------------------


class Op:
    """One collective instance on one group (shared by all members)."""

    __slots__ = (
        'gid', 'index', 'posts', 'ready_at', 'completed', 'mismatch',
    )

    def __init__(self, gid: tuple, index: int) -> None:
        self.gid = gid
        self.index = index
        self.posts: dict[int, dict[str, Any]] = {}
        self.ready_at = 0.0
        self.completed = False
        self.mismatch = False


def _sig(p: dict[str, Any]) -> tuple:
    return (p['kind'], p['dtype'], p['numel'], p['root'])


class Rank:
    def __init__(self, idx: int) -> None:
        self.idx = idx
        self.sem = threading.Semaphore(0)
        self.state = 'new'
        self.blocked_on: SimFuture | None = None
        self.thread: threading.Thread | None = None
        self.error: BaseException | None = None
        self.error_tb = ''
        self.result: Any = None
        self.group_posts: dict[tuple, int] = {}
        self.n_new_group = 0


class SimCfg:
    """Knobs of one simulated incarnation (all drawn from the run PRNG)."""

    def __init__(self, **kw: Any) -> None:
        self.poison = kw.get('poison', False)
        # rendezvous-style transport: the payload is read from the send
        # buffer when the collective completes, not when it is posted
        self.late_read = kw.get('late_read', False)
        # gloo-like transport: collectives of one group may complete out of
        # order (matching is still by sequence); NCCL-like when True
        self.fifo = kw.get('fifo', True)
        self.latency = kw.get('latency', 1e-4)
        self.bandwidth = kw.get('bandwidth', 1e9)
        self.step_cost = kw.get('step_cost', 1e-5)
        self.crash_at_event = kw.get('crash_at_event', None)
        self.max_actions = kw.get('max_actions', 200000)
        self.initialized = kw.get('initialized', True)
        self.nonmember_raises = kw.get('nonmember_raises', True)
        # launcher environment seam: ranks per node of a torchrun-style
        # launch (None: the launcher variables are not set at all)
        self.local_size = kw.get('local_size', None)

    def to_json(self) -> dict[str, Any]:
        return dict(self.__dict__)


class Sim:
    """One incarnation of the simulated job."""

    def __init__(self, world: int, chooser: Any, cfg: SimCfg | None = None):
        self.world = world
        self.chooser = chooser
        self.cfg = cfg or SimCfg()
        self.ranks = [Rank(i) for i in range(world)]
        self.sched_sem = threading.Semaphore(0)
        self.aborting: str | None = None
        self.now = 0.0
        self.n_actions = 0
        self.n_events = 0
        self.n_futures = 0
        self.open_futures: dict[int, SimFuture] = {}
        self.world_gid: tuple = (-1, tuple(range(world)))
        # gid -> list[Op]; head index per gid
        self.ops: dict[tuple, list[Op]] = {self.world_gid: []}
        self.head: dict[tuple, int] = {self.world_gid: 0}
        self.new_group_calls: list[dict[int, tuple]] = []
        self.log: list[tuple] = []  # transport records, no floats
        self.decisions: list[int] = []
        self.violations: list[dict[str, Any]] = []
        self.probes: dict[str, int] = {}
        self.multi_enabled = 0
        self.status = 'new'
        self.deadlock_info: list[str] = []
        self.fault_counts: dict[str, int] = {}
        self.action_hook: Callable[['Sim'], None] | None = None

    # -- bookkeeping -------------------------------------------------------
    def probe(self, name: str, n: int = 1) -> None:
        self.probes[name] = self.probes.get(name, 0) + n

    def fault(self, name: str, n: int = 1) -> None:
        self.fault_counts[name] = self.fault_counts.get(name, 0) + n

    def violation(self, clause: str, **detail: Any) -> None:
        self.violations.append({'clause': clause, **detail})

    # -- baton ---------------------------------------------------------
    def _yield(self, state: str, blocked_on: SimFuture | None = None) -> None:
        r = self.ranks[cur_rank()]
        if threading.current_thread() is not r.thread:
            raise HarnessError(
                'rank code blocked on the scheduler thread (a completion '
                'callback waited on an unresolved future)',
            )
        r.state = state
        r.blocked_on = blocked_on
        self.sched_sem.release()
        r.sem.acquire()
        if self.aborting is not None:
            raise SimAbort(self.aborting)
        r.state = 'running'
        r.blocked_on = None

    def _thread_main(self, r: Rank, fn: Callable[[int], Any]) -> None:
        _tl.rank = r.idx
        _tl.origin = 'kfac'
        r.sem.acquire()
        try:
            if self.aborting is None:
                r.state = 'running'
                r.result = fn(r.idx)
            r.state = 'done'
        except SimAbort:
            r.state = 'aborted'
        except BaseException as e:  # noqa: BLE001
            import traceback

            r.error = e
            r.error_tb = traceback.format_exc()
            r.state = 'crashed'
        finally:
            self.sched_sem.release()

    # -- scheduler ---------------------------------------------------------
    def _completable(self) -> list[tuple[tuple, Op]]:
        out = []
        for gid in self.ops:
            lst = self.ops[gid]
            while self.head[gid] < len(lst) and lst[
                    self.head[gid]].completed:
                self.head[gid] += 1
            h = self.head[gid]
            for op in lst[h:] if not self.cfg.fifo else lst[h:h + 1]:
                if not op.completed and len(op.posts) == len(gid[1]):
                    out.append((gid, op))
        return out

    def run(self, fn: Callable[[int], Any]) -> str:
        """Run fn(rank) on every rank to completion; returns status."""
        global _ACTIVE
        if _ACTIVE is not None:
            raise HarnessError('nested simulations')
        _ACTIVE = self
        prev_rank = getattr(_tl, 'rank', None)
        try:
            threading.stack_size(2 << 20)
            for r in self.ranks:
                r.thread = threading.Thread(
                    target=self._thread_main, args=(r, fn),
                    name=f'simrank{r.idx}', daemon=True,
                )
                r.state = 'runnable'
                r.thread.start()
            self._loop()
        finally:
            self._shutdown()
            _tl.rank = prev_rank
            _ACTIVE = None
        return self.status

    def _loop(self) -> None:
        while True:
            if self.action_hook is not None:
                self.action_hook(self)
            enabled: list[tuple] = []
            for r in self.ranks:
                if r.state == 'runnable' or (
                    r.state == 'blocked'
                    and r.blocked_on is not None
                    and r.blocked_on.done()
                ):
                    enabled.append(('run', r.idx))
            comp = sorted(self._completable(),
                          key=lambda x: (x[0], x[1].index))
            timed = [(g, o) for g, o in comp if o.ready_at <= self.now]
            for g, o in timed:
                enabled.append(('complete', g, o.index))
            if not enabled:
                if comp:
                    # nothing runnable before the next completion: jump clock
                    self.now = min(o.ready_at for _, o in comp)
                    continue
                if any(r.state == 'crashed' for r in self.ranks):
                    self.status = 'rank_error'
                elif all(r.state == 'done' for r in self.ranks):
                    self.status = 'ok'
                else:
                    self.status = 'deadlock'
                    self._describe_deadlock()
                return
            if any(r.state == 'crashed' for r in self.ranks):
                # a rank died with an exception: the job is dead
                self.status = 'rank_error'
                return
            if len(enabled) > 1:
                self.multi_enabled += 1
            k = self.chooser.pick(enabled, self)
            self.decisions.append(k)
            act = enabled[k]
            self.n_actions += 1
            if self.n_actions > self.cfg.max_actions:
                self.status = 'cap'
                return
            self.now += self.cfg.step_cost
            if act[0] == 'run':
                r = self.ranks[act[1]]
                r.state = 'running'
                r.sem.release()
                self.sched_sem.acquire()
            else:
                if act[2] != self.head[act[1]]:
                    self.fault('out_of_order_completion')
                self._complete(act[1], act[2])
            if (
                self.cfg.crash_at_event is not None
                and self.n_events >= self.cfg.crash_at_event
            ):
                self.fault('crash_mid_operation')
                self.status = 'crash'
                return

    def _describe_deadlock(self) -> None:
        for r in self.ranks:
            if r.state == 'blocked':
                self.deadlock_info.append(
                    f'rank {r.idx} blocked on future '
                    f'{getattr(r.blocked_on, "_sim_label", "?")}',
                )
            else:
                self.deadlock_info.append(f'rank {r.idx} {r.state}')
        for gid, lst in self.ops.items():
            h = self.head[gid]
            while h < len(lst) and lst[h].completed:
                h += 1
            if h < len(lst):
                op = lst[h]
                missing = [x for x in gid[1] if x not in op.posts]
                kinds = sorted({p['kind'] for p in op.posts.values()})
                self.deadlock_info.append(
                    f'group {gid}: op#{h} {kinds} posted by '
                    f'{sorted(op.posts)} missing {missing}',
                )

    def _shutdown(self) -> None:
        self.aborting = self.status if self.status != 'ok' else 'end'
        for r in self.ranks:
            if r.thread is None:
                continue
            while r.thread.is_alive():
                r.sem.release()
                r.thread.join(timeout=0.05)
        # drain semaphore counts so nothing leaks
        self.open_at_end = len(self.open_futures)

    # -- group management ---------------------------------------------------
    def new_group(self, ranks: Any = None, **kw: Any) -> Any:
        me = cur_rank()
        r = self.ranks[me]
        members = tuple(sorted(range(self.world) if ranks is None else ranks))
        k = r.n_new_group
        r.n_new_group += 1
        while len(self.new_group_calls) <= k:
            self.new_group_calls.append({})
        self.new_group_calls[k][me] = members
        self.n_events += 1
        self.log.append(('new_group', me, k, members))
        gid = (k, members)
        if gid not in self.ops:
            self.ops[gid] = []
            self.head[gid] = 0
        others = {
            m for rr, m in self.new_group_calls[k].items() if rr != me
        }
        if others and others != {members}:
            self.violation(
                'new_group_mismatch', call_index=k, rank=me,
                members=list(members),
                others=sorted(list(o) for o in others),
            )
        self._yield('runnable')
        if me not in members:
            return NON_MEMBER
        return SimGroup(gid, members, me)

    def _resolve_group(self, group: Any) -> tuple[tuple, bool]:
        """-> (gid, is_member)."""
        if group is None:
            return self.world_gid, True
        if isinstance(group, SimGroup):
            return group.gid, cur_rank() in group.sim_ranks
        if group is NON_MEMBER or group == NON_MEMBER:
            return ('nonmember',), False
        raise HarnessError(f'unknown group handle {group!r}')

    def get_world_size(self, group: Any = None) -> int:
        gid, member = self._resolve_group(group)
        if not member:
            return -1
        return len(gid[1])

    def get_rank(self, group: Any = None) -> int:
        gid, member = self._resolve_group(group)
        if not member:
            return -1
        return gid[1].index(cur_rank())

    # -- posting -----------------------------------------------------------
    def post(self, group: Any, kind: str, *, dtype: Any, numel: int,
             root: int | None, payload: dict[str, Any],
             sync: bool) -> SimFuture | None:
        me = cur_rank()
        gid, member = self._resolve_group(group)
        org = getattr(_tl, 'origin', 'kfac')
        if not member:
            self.n_events += 1
            self.log.append(('NONMEMBER', me, kind, org))
            self.violation('nonmember_collective', rank=me, kind=kind,
                           origin=org)
            self.probe('nonmember_call')
            if self.cfg.nonmember_raises:
                raise ValueError(
                    f'Global rank {me} is not part of group (simulated)',
                )
            self._yield('runnable')
            return None
        r = self.ranks[me]
        idx = r.group_posts.get(gid, 0)
        r.group_posts[gid] = idx + 1
        lst = self.ops[gid]
        while len(lst) <= idx:
            lst.append(Op(gid, len(lst)))
        op = lst[idx]
        fut = SimFuture()
        fut._sim_label = f'{kind}@{gid}#{idx}/r{me}'  # type: ignore
        post = {
            'kind': kind, 'dtype': str(dtype), 'numel': int(numel),
            'root': root, 'origin': org, 'future': fut, 'sync': sync,
            'time': self.now, **payload,
        }
        if root is not None and root not in gid[1]:
            self.violation('root_not_member', rank=me, kind=kind, root=root,
                           group=list(gid[1]))
        for other in op.posts.values():
            if _sig(other) != _sig(post):
                if not op.mismatch:
                    op.mismatch = True
                    self.violation(
                        'collective_mismatch', group=list(gid[1]),
                        index=idx, a=list(map(str, _sig(other))),
                        b=list(map(str, _sig(post))), rank=me,
                    )
                break
        op.posts[me] = post
        self.n_events += 1
        self.log.append(
            (kind, me, gid[0], gid[1], idx, str(dtype), int(numel), root,
             org, 'sync' if sync else 'async'),
        )
        if len(op.posts) == len(gid[1]):
            op.ready_at = (
                self.now + self.cfg.latency + numel / self.cfg.bandwidth
            )
        if sync:
            self._yield('runnable')
            fut.wait()
            return None
        self._yield('runnable')
        return fut

    # -- completion --------------------------------------------------------
    def _complete(self, gid: tuple, index: int) -> None:
        op = self.ops[gid][index]
        op.completed = True
        members = gid[1]
        posts = [op.posts[m] for m in members]
        kind = posts[0]['kind']
        self.log.append(('complete', gid[0], gid[1], op.index, kind))
        if op.mismatch:
            # torch would hang or corrupt; we stop the job here.
            for p in posts:
                p['future'].set_exception(
                    RuntimeError('mismatched collective (simulated)'),
                )
            return
        try:
            _COMPLETERS[kind](self, members, posts)
        except SimAbort:
            raise
        except Exception as e:  # noqa: BLE001
            self.violation('completion_error', kind=kind, error=repr(e))
            for p in posts:
                if not p['future'].done():
                    p['future'].set_exception(
                        RuntimeError(f'collective failed: {e!r}'),
                    )

    # -- end-of-run helpers ------------------------------------------------
    def pending_ops(self) -> list[str]:
        out = []
        for gid, lst in self.ops.items():
            for op in lst[self.head[gid]:]:
                if op.completed:
                    continue
                out.append(
                    f'group {gid} op#{op.index} posted by {sorted(op.posts)}',
                )
        return out

    def event_digest(self) -> str:
        h = hashlib.sha256()
        h.update(repr(self.log).encode())
        h.update(repr(self.decisions).encode())
        return h.hexdigest()[:24]


# ---------------------------------------------------------------------------
# collective semantics
# ---------------------------------------------------------------------------


def _poisonable(t: torch.Tensor) -> bool:
    return t.is_floating_point()


def _check_send_unchanged(sim: Sim, p: dict[str, Any], what: str) -> None:
    t = p['tensor']
    snap = p['snap']
    if p.get('poisoned'):
        ok = bool(torch.isnan(t).all()) if t.numel() else True
    else:
        ok = torch.equal(t, snap) or (
            t.is_floating_point()
            and torch.equal(torch.isnan(t), torch.isnan(snap))
            and torch.equal(torch.nan_to_num(t), torch.nan_to_num(snap))
        )
    if not ok:
        sim.violation('buffer_written_in_flight', kind=what,
                      label=p['future']._sim_label)


def _payload(sim: Sim, p: dict[str, Any]) -> torch.Tensor:
    if sim.cfg.late_read and not p.get('poisoned'):
        if not torch.equal(p['tensor'], p['snap']):
            sim.fault('late_read_saw_modified_buffer')
        return p['tensor'].detach().clone()
    return p['snap']


def _c_all_reduce(sim: Sim, members: tuple, posts: list) -> None:
    acc = _payload(sim, posts[0]).clone()
    for p in posts[1:]:
        acc = acc + _payload(sim, p)
    for p in posts:
        _check_send_unchanged(sim, p, 'all_reduce')
        p['tensor'].copy_(acc)
        p['future'].set_result([p['tensor']])


def _c_broadcast(sim: Sim, members: tuple, posts: list) -> None:
    root = posts[0]['root']
    src = None
    for m, p in zip(members, posts):
        if m == root:
            src = p
    if src is None:
        raise RuntimeError('broadcast root is not a member')
    _check_send_unchanged(sim, {**src, 'poisoned': False}, 'broadcast')
    data = _payload(sim, {**src, 'poisoned': False})
    for m, p in zip(members, posts):
        if m != root:
            _check_send_unchanged(sim, p, 'broadcast')
            p['tensor'].copy_(data)
        p['future'].set_result([p['tensor']])


def _c_all_gather(sim: Sim, members: tuple, posts: list) -> None:
    for p in posts:
        outs = p['out_list']
        if len(outs) != len(members):
            raise RuntimeError('all_gather output list has wrong length')
        for o, q in zip(outs, posts):
            o.copy_(q['snap'])
        p['future'].set_result(outs)


def _c_reduce_scatter(sim: Sim, members: tuple, posts: list) -> None:
    n = len(members)
    for i, p in enumerate(posts):
        acc = posts[0]['snaps'][i].clone()
        for q in posts[1:]:
            acc = acc + q['snaps'][i]
        p['tensor'].copy_(acc)
    for p in posts:
        if len(p['snaps']) != n:
            raise RuntimeError('reduce_scatter input list has wrong length')
        p['future'].set_result(p['tensor'])


def _c_all_gather_object(sim: Sim, members: tuple, posts: list) -> None:
    for p in posts:
        ol = p['object_list']
        if len(ol) != len(members):
            raise RuntimeError('all_gather_object list has wrong length')
        for i, q in enumerate(posts):
            ol[i] = pickle.loads(q['blob'])
        p['future'].set_result(None)


def _c_barrier(sim: Sim, members: tuple, posts: list) -> None:
    for p in posts:
        p['future'].set_result(None)


_COMPLETERS = {
    'all_reduce': _c_all_reduce,
    'broadcast': _c_broadcast,
    'all_gather': _c_all_gather,
    'reduce_scatter': _c_reduce_scatter,
    'all_gather_object': _c_all_gather_object,
    'barrier': _c_barrier,
}


# ---------------------------------------------------------------------------
# the torch.distributed facade
# ---------------------------------------------------------------------------


class SimDist:
    """Functions installed over torch.distributed.* while a Sim is active."""

    @staticmethod
    def is_initialized() -> bool:
        sim = _ACTIVE
        return sim is not None and sim.cfg.initialized

    @staticmethod
    def is_available() -> bool:
        return True

    @staticmethod
    def get_rank(group: Any = None) -> int:
        return active().get_rank(group)

    @staticmethod
    def get_world_size(group: Any = None) -> int:
        return active().get_world_size(group)

    @staticmethod
    def new_group(ranks: Any = None, *a: Any, **kw: Any) -> Any:
        return active().new_group(ranks, **kw)

    @staticmethod
    def get_process_group_ranks(group: Any) -> list[int]:
        sim = active()
        gid, member = sim._resolve_group(group)
        if not member:
            raise ValueError('not a member')
        return list(gid[1])

    @staticmethod
    def all_reduce(tensor: torch.Tensor, op: Any = None, group: Any = None,
                   async_op: bool = False) -> Any:
        sim = active()
        if op is not None and op != dist.ReduceOp.SUM:
            raise HarnessError('only SUM all_reduce is simulated')
        snap = tensor.detach().clone()
        payload = {'tensor': tensor, 'snap': snap, 'poisoned': False}
        if sim.cfg.poison and async_op and _poisonable(tensor):
            with torch.no_grad():
                tensor.fill_(float('nan'))
            payload['poisoned'] = True
            sim.fault('inflight_poison')
        fut = sim.post(group, 'all_reduce', dtype=tensor.dtype,
                       numel=tensor.numel(), root=None, payload=payload,
                       sync=not async_op)
        return SimWork(fut) if async_op and fut is not None else None

    @staticmethod
    def broadcast(tensor: torch.Tensor, src: int = 0, group: Any = None,
                  async_op: bool = False) -> Any:
        sim = active()
        me = cur_rank()
        snap = tensor.detach().clone()
        payload = {'tensor': tensor, 'snap': snap, 'poisoned': False}
        if (sim.cfg.poison and async_op and me != src
                and _poisonable(tensor)):
            with torch.no_grad():
                tensor.fill_(float('nan'))
            payload['poisoned'] = True
            sim.fault('inflight_poison')
        fut = sim.post(group, 'broadcast', dtype=tensor.dtype,
                       numel=tensor.numel(), root=src, payload=payload,
                       sync=not async_op)
        return SimWork(fut) if async_op and fut is not None else None

    @staticmethod
    def all_gather(tensor_list: list, tensor: torch.Tensor,
                   group: Any = None, async_op: bool = False) -> Any:
        sim = active()
        payload = {'out_list': tensor_list, 'snap': tensor.detach().clone()}
        if sim.cfg.poison and async_op:
            with torch.no_grad():
                for o in tensor_list:
                    if _poisonable(o):
                        o.fill_(float('nan'))
            sim.fault('inflight_poison')
        fut = sim.post(group, 'all_gather', dtype=tensor.dtype,
                       numel=tensor.numel(), root=None, payload=payload,
                       sync=not async_op)
        return SimWork(fut) if async_op and fut is not None else None

    @staticmethod
    def reduce_scatter(output: torch.Tensor, input_list: list,
                       op: Any = None, group: Any = None,
                       async_op: bool = False) -> Any:
        sim = active()
        payload = {'tensor': output,
                   'snaps': [t.detach().clone() for t in input_list]}
        if sim.cfg.poison and async_op and _poisonable(output):
            with torch.no_grad():
                output.fill_(float('nan'))
            sim.fault('inflight_poison')
        fut = sim.post(group, 'reduce_scatter', dtype=output.dtype,
                       numel=output.numel(), root=None, payload=payload,
                       sync=not async_op)
        return SimWork(fut) if async_op and fut is not None else None

    @staticmethod
    def all_gather_object(object_list: list, obj: Any,
                          group: Any = None) -> None:
        sim = active()
        payload = {'object_list': object_list, 'blob': pickle.dumps(obj)}
        sim.post(group, 'all_gather_object', dtype='object',
                 numel=len(object_list), root=None, payload=payload,
                 sync=True)

    @staticmethod
    def barrier(group: Any = None, async_op: bool = False,
                device_ids: Any = None) -> Any:
        sim = active()
        fut = sim.post(group, 'barrier', dtype='none', numel=0, root=None,
                       payload={}, sync=not async_op)
        return SimWork(fut) if async_op and fut is not None else None


_PATCHED = [
    'is_initialized', 'is_available', 'get_rank', 'get_world_size',
    'new_group', 'get_process_group_ranks', 'all_reduce', 'broadcast',
    'all_gather', 'reduce_scatter', 'all_gather_object', 'barrier',
]


class _EnvProxy(collections.abc.MutableMapping):
    """os.environ as each simulated rank sees it: the launcher variables
    (RANK, LOCAL_RANK, WORLD_SIZE, ...) are per process in a real job but a
    single-process simulation has one environment, so they are answered per
    rank thread here; every other key goes to the real environment."""

    def __init__(self, real: Any) -> None:
        self._real = real

    def _launcher(self) -> dict[str, str]:
        sim = _ACTIVE
        r = getattr(_tl, 'rank', None)
        if sim is None or r is None or sim.cfg.local_size is None:
            return {}
        ls = sim.cfg.local_size
        return {'RANK': str(r), 'WORLD_SIZE': str(sim.world),
                'LOCAL_RANK': str(r % ls), 'LOCAL_WORLD_SIZE': str(ls),
                'GROUP_RANK': str(r // ls)}

    def __getitem__(self, k: str) -> str:
        la = self._launcher()
        if k in la:
            _ACTIVE.probe('launcher_env_read')  # type: ignore
            return la[k]
        return self._real[k]

    def __setitem__(self, k: str, v: str) -> None:
        self._real[k] = v

    def __delitem__(self, k: str) -> None:
        del self._real[k]

    def __iter__(self) -> Any:
        return iter({**self._real, **self._launcher()})

    def __len__(self) -> int:
        return len({**self._real, **self._launcher()})

    def copy(self) -> dict[str, str]:
        return {**self._real, **self._launcher()}


class patched:
    """Install SimDist and SimFuture over torch for the duration."""

    def __enter__(self) -> 'patched':
        self.saved_environ = os.environ
        os.environ = _EnvProxy(os.environ)  # type: ignore
        self.saved = {n: getattr(dist, n) for n in _PATCHED}
        for n in _PATCHED:
            setattr(dist, n, getattr(SimDist, n))
        self.saved_future = torch.futures.Future
        torch.futures.Future = SimFuture  # type: ignore
        return self

    def __exit__(self, *a: Any) -> None:
        for n, v in self.saved.items():
            setattr(dist, n, v)
        torch.futures.Future = self.saved_future  # type: ignore
        os.environ = self.saved_environ
