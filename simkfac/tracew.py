"""W-trace: traced functions under an injected clock (C20)."""

from __future__ import annotations

import random
from typing import Any

from simkfac import core, sched


class SimClock:
    """The only clock kfac.tracing reads; keeps the live reference table."""

    def __init__(self, plan: dict[str, Any], sim: core.Sim) -> None:
        c = plan['clock']
        self.sim = sim
        self.now = c['base']
        self.read_cost = c['read_cost']
        self.jumps = {j['at_read']: j['delta'] for j in c['jumps']}
        self.skew = list(c['skew'])
        self.skew_jumps = {j['at_read']: (j['rank'], j['delta'])
                           for j in c['skew_jumps']}
        self.n_reads = 0
        self.pending: dict[int, float] = {}
        self.current: dict[int, str] = {}
        self.ref: dict[str, list[float]] = {}
        self.samples_on_raise = 0
        self.log: list[tuple] = []

    def advance(self, d: float) -> None:
        self.now += d

    def time(self) -> float:
        r = core.cur_rank()
        self.n_reads += 1
        self.now += self.read_cost
        if self.n_reads in self.jumps:
            self.now += self.jumps[self.n_reads]
            self.sim.fault('clock_step')
        if self.n_reads in self.skew_jumps:
            rk, d = self.skew_jumps[self.n_reads]
            if rk < len(self.skew):
                self.skew[rk] += d
                self.sim.fault('clock_skew_change')
        v = self.now + self.skew[r]
        self.log.append((r, v))
        if r in self.pending:
            start = self.pending.pop(r)
            name = self.current.get(r, '?')
            self.ref.setdefault(name, []).append(v - start)
        else:
            self.pending[r] = v
        return v

    def call_raised(self, rank: int) -> None:
        """The traced call on this rank ended with an exception."""
        if rank in self.pending:
            # one read only: no sample was (or could have been) recorded
            self.pending.pop(rank)
        else:
            # two reads: the wrapper timed the raising call as well. Only
            # COMPLETED calls contribute samples (statement of C20), so the
            # reference drops it again and the run is flagged
            self.samples_on_raise += 1
            name = self.current.get(rank, '?')
            if self.ref.get(name):
                self.ref[name].pop()
                if not self.ref[name]:
                    del self.ref[name]

    def ref_query(self, average: bool, max_history: Any) -> dict[str, float]:
        out = {}
        for name, times in self.ref.items():
            t = times
            if max_history is not None:
                t = times[len(times) - min(max_history, len(times)):]
            s = sum(t)
            out[name] = s / len(t) if average else s
        return out


class Unique:
    """Return values / arguments with identity."""

    def __init__(self, tag: Any) -> None:
        self.tag = tag


KWNAMES = ['sync', 'k0', 'func', 'args', 'kwargs', 'name', 'self', 't',
           'start', 'f', 'max_history', 'average', 'fn', 'out', 'times']


class Boom(Exception):
    pass


def execute(plan: dict[str, Any], tape: Any = None) -> dict[str, Any]:
    import kfac.tracing as tracing

    s = plan['sim']
    chooser: Any
    if tape is not None:
        chooser = sched.TapeChooser(tape)
    else:
        chooser = sched.PolicyChooser(random.Random(s['sched_seed']),
                                      s['policy'], plan['world'])
    sim = core.Sim(plan['world'], chooser, core.SimCfg())
    clock = SimClock(plan, sim)
    violations: list[dict[str, Any]] = []
    stats = {'calls': 0, 'queries': 0, 'clears': 0, 'raising_calls': 0,
             'windowed_queries': 0, 'sync_calls': 0}

    def bad(clause: str, **d: Any) -> None:
        violations.append({'clause': clause, 'props': ['C20'], **d})

    def prog(rank: int) -> Any:
        funcs = []
        for fi, f in enumerate(plan['funcs']):
            def body(*args: Any, _fi: int = fi, **kwargs: Any) -> Any:
                st = body_state[rank]
                st['got_args'] = (args, kwargs)
                clock.advance(st['dur'])
                if st['raise']:
                    raise st['exc']
                return st['ret']
            body.__name__ = f['name']
            funcs.append(tracing.trace(sync=f['sync'])(body))
        for oi, op in enumerate(plan['ops']):
            if op['op'] == 'call':
                f = plan['funcs'][op['f']]
                st = body_state[rank]
                st['dur'] = op['dur']
                st['raise'] = op.get('raise', False)
                st['exc'] = Boom(f'{rank}:{oi}')
                st['ret'] = Unique((rank, oi))
                st['got_args'] = None
                args = tuple(Unique(('a', rank, oi, i))
                             for i in range(op.get('nargs', 0)))
                # keyword names the wrapper itself might use internally
                kwargs = {
                    KWNAMES[(oi * 5 + i) % len(KWNAMES)]: Unique(
                        ('k', rank, oi, i))
                    for i in range(op.get('nkwargs', 0))}
                clock.current[rank] = f['name']
                stats['calls'] += 1
                if f['sync']:
                    stats['sync_calls'] += 1
                try:
                    out = funcs[op['f']](*args, **kwargs)
                    if st['raise']:
                        bad('C20.exception_swallowed', op=oi, rank=rank)
                    elif out is not st['ret']:
                        bad('C20.return_value_changed', op=oi, rank=rank)
                except Boom as e:
                    stats['raising_calls'] += 1
                    clock.call_raised(rank)
                    if not st['raise'] or e is not st['exc']:
                        bad('C20.exception_changed', op=oi, rank=rank)
                except Exception as e:  # noqa: BLE001
                    # the wrapper itself failed
                    clock.pending.pop(rank, None)
                    bad('C20.wrapper_raised', op=oi, rank=rank,
                        error=repr(e))
                    continue
                ga = st['got_args']
                if ga is None or len(ga[0]) != len(args) or any(
                        x is not y for x, y in zip(ga[0], args)) or \
                        set(ga[1]) != set(kwargs) or any(
                            ga[1][k] is not kwargs[k] for k in kwargs):
                    bad('C20.arguments_changed', op=oi, rank=rank)
            elif op['op'] == 'get':
                stats['queries'] += 1
                if op['max_history'] is not None:
                    stats['windowed_queries'] += 1
                got = tracing.get_trace(average=op['average'],
                                        max_history=op['max_history'])
                want = clock.ref_query(op['average'], op['max_history'])
                if got != want:
                    bad('C20.statistic', op=oi, rank=rank,
                        average=op['average'],
                        max_history=op['max_history'], got=got, want=want,
                        n_samples={k: len(v) for k, v in clock.ref.items()})
            elif op['op'] == 'clear':
                stats['clears'] += 1
                tracing.clear_trace()
                clock.ref.clear()
                if tracing.get_trace() != {}:
                    bad('C20.clear_left_traces', op=oi, rank=rank)
        return None

    body_state = {r: {} for r in range(plan['world'])}
    real_time = tracing.time
    tracing.clear_trace()
    tracing.time = clock  # type: ignore
    try:
        with core.patched():
            status = sim.run(prog)
    finally:
        tracing.time = real_time  # type: ignore
        tracing.clear_trace()
    if clock.samples_on_raise:
        violations.append({'clause': 'C20.sample_for_raising_call',
                           'props': ['C20'],
                           'timed': clock.samples_on_raise,
                           'raising': stats['raising_calls']})
    return {
        'status': status, 'violations': sim.violations,
        'local': violations, 'stats': stats,
        'rank_errors': {r.idx: {'error': repr(r.error), 'tb': r.error_tb}
                        for r in sim.ranks if r.error is not None},
        'log': sim.log, 'probes': sim.probes, 'faults': sim.fault_counts,
        'n_actions': sim.n_actions, 'multi_enabled': sim.multi_enabled,
        'sim_time': clock.now - plan['clock']['base'],
        'decisions': sim.decisions, 'deadlock': sim.deadlock_info,
        'pending': sim.pending_ops() if status == 'ok' else [],
        'event_digest': sim.event_digest(), 'restart_op': None,
        'clock_log': clock.log,
    }


def gen_trace_plan(rng: random.Random, tier: str) -> dict[str, Any]:
    world = rng.choice([1, 1, 1, 2, 3, 4])
    names = rng.sample(['step', 'fwd', 'bwd', 'reduce', 'f'], rng.randint(
        1, 4))
    funcs = []
    for i in range(rng.randint(1, 4)):
        funcs.append({'name': rng.choice(names),
                      'sync': world > 1 and rng.random() < 0.4})
    if world == 1 and rng.random() < 0.3:
        funcs[0]['sync'] = True
    n = rng.randint(1, 6) if rng.random() < 0.5 else rng.randint(
        6, 40 if tier == 'quick' else 120)
    ops: list[dict[str, Any]] = []
    bit = 1
    for _ in range(n):
        r = rng.random()
        if r < 0.6:
            # every sample owns distinct bits so sums identify the window
            dur = (1 + 2 * (bit % 23)) / 2.0 ** (6 + bit % 20)
            bit += 1
            ops.append({'op': 'call', 'f': rng.randrange(len(funcs)),
                        'dur': dur, 'raise': rng.random() < 0.1,
                        'nargs': rng.randint(0, 3),
                        'nkwargs': rng.randint(0, 2)})
        elif r < 0.93:
            ops.append({'op': 'get', 'average': rng.random() < 0.5,
                        'max_history': rng.choice(
                            [None, None, 1, 2, 3, 5, 100])})
        else:
            ops.append({'op': 'clear'})
    ops.append({'op': 'get', 'average': False, 'max_history': None})
    ops.append({'op': 'get', 'average': True, 'max_history': 2})
    total_reads = 2 * n * world + 8
    jumps = [{'at_read': rng.randint(1, total_reads),
              'delta': rng.choice([-1.0, 0.5, 64.0, -3.25, 1024.0])}
             for _ in range(rng.randint(0, 4))]
    skew_jumps = [{'at_read': rng.randint(1, total_reads),
                   'rank': rng.randrange(world),
                   'delta': rng.choice([0.25, -0.5, 2.0])}
                  for _ in range(rng.randint(0, 3))]
    return {
        'kind': 'trace', 'world': world, 'funcs': funcs, 'ops': ops,
        'clock': {
            'base': rng.choice([0.0, 1024.0, 1696000000.0]),
            'read_cost': rng.choice([0.0, 2.0 ** -20, 2.0 ** -12]),
            'jumps': jumps, 'skew_jumps': skew_jumps,
            'skew': [rng.choice([0.0, 0.125, -2.0, 16.0])
                     for _ in range(world)],
        },
        'sim': {'policy': rng.choice(sched.POLICIES),
                'sched_seed': rng.randrange(1 << 30)},
    }
