"""Hyper-parameter specifications (JSON) <-> constants / recording callables.

A spec is {'c': value} for a constant or {'f': 'cycle', 'vals': [...]} /
{'f': 'expdecay', 'cap': x} for a function of the K-FAC step.  The reference
model evaluates the same spec with its own formulas (ref_eval).
"""

from __future__ import annotations

from typing import Any, Callable

HP_NAMES = (
    'factor_update_steps', 'inv_update_steps', 'damping', 'factor_decay',
    'kl_clip', 'lr',
)
INT_HPS = ('factor_update_steps', 'inv_update_steps')


def is_callable_spec(spec: dict[str, Any]) -> bool:
    return 'f' in spec


def ref_eval(spec: dict[str, Any], step: int) -> Any:
    """Reference evaluation of a callable spec, from the statements."""
    if spec['f'] in ('cycle', 'ext'):
        v = spec['vals']
        return v[step % len(v)]
    if spec['f'] == 'expdecay':
        return min(1.0 - 1.0 / max(step, 1), spec['cap'])
    raise ValueError(spec)


class External:
    """State outside K-FAC that a callable hyper-parameter may read (the
    documented `lr=lambda x: optimizer.param_groups[0]['lr']` pattern)."""

    def __init__(self) -> None:
        self.it = 0


class Recording:
    """Callable handed to kfac; records every argument it is called with."""

    def __init__(self, name: str, fn: Callable[[int], Any]) -> None:
        self.name = name
        self.fn = fn
        self.calls: list[Any] = []

    def __call__(self, *args: Any, **kwargs: Any) -> Any:
        self.calls.append(args[0] if len(args) == 1 and not kwargs
                          else ('BAD', repr(args), repr(kwargs)))
        return self.fn(*args, **kwargs)


def call_recording(rec: Recording, step: int) -> Any:
    return rec(step)


def build(name: str, spec: dict[str, Any], ext: Any = None) -> Any:
    """Value to pass to the preconditioner constructor."""
    if 'c' in spec:
        return spec['c']
    if spec['f'] == 'ext':
        vals = list(spec['vals'])
        return Recording(name, lambda s: vals[ext.it % len(vals)])
    if spec['f'] == 'cycle':
        vals = list(spec['vals'])
        return Recording(name, lambda s: vals[s % len(vals)])
    if spec['f'] == 'expdecay':
        from kfac.hyperparams import exp_decay_factor_averaging

        return Recording(name, exp_decay_factor_averaging(spec['cap']))
    raise ValueError(spec)


def build_lambda(name: str, spec: dict[str, Any]) -> Recording:
    """Multiplicative-factor function for LambdaParamScheduler."""
    vals = list(spec['vals'])
    return Recording(name, lambda s: vals[s % len(vals)])
