"""Oracles for W-neox executions (C11, C18 and the GPT-NeoX clauses of C03/C07)."""

from __future__ import annotations

import io
from collections import Counter
from typing import Any

import torch

from simkfac import hp as hpmod
from simkfac import ref as R
from simkfac.neox import layer_table, topo_of
from simkfac.oracle_train import Report, SIM_CLAUSES
from simkfac.train import split_incarnations


def _cat(parts: list[torch.Tensor], dim: int) -> torch.Tensor:
    return parts[0] if len(parts) == 1 else torch.cat(parts, dim=dim)


def reassemble(plan: dict[str, Any], recs: dict[int, dict[str, Any]],
               topo: Any, stage: int, dpc: int, key: str,
               rep: Report, opkey: Any) -> dict[str, torch.Tensor] | None:
    """Full combined (weight|bias) gradient per layer from the shards held by
    the model-parallel peers of (stage, dpc)."""
    table = layer_table(plan)
    mp = plan['model']
    ranks = [topo.get_rank(pipe=stage, data=dpc, model=m) for m in range(mp)]
    if any(r not in recs or key not in recs[r] for r in ranks):
        return None
    out = {}
    for name in recs[ranks[0]][key]:
        spec = table[int(name)]
        ws = [recs[r][key][name]['w'].to(R.F64) for r in ranks]
        bs = [recs[r][key][name]['b'] for r in ranks]
        if spec['kind'] == 'col':
            w = _cat(ws, 0)
            b = None if bs[0] is None else _cat(
                [x.to(R.F64) for x in bs], 0)
        else:
            w = _cat(ws, 1)
            b = None if bs[0] is None else bs[0].to(R.F64)
        out[name] = w if b is None else torch.cat([w, b.reshape(-1, 1)], 1)
    return out


def full_caps(plan: dict[str, Any], recs: dict[int, dict[str, Any]],
              topo: Any, stage: int, dpc: int) -> dict[str, Any] | None:
    """Unsharded activations / output gradients of (stage, dpc)."""
    table = layer_table(plan)
    mp = plan['model']
    ranks = [topo.get_rank(pipe=stage, data=dpc, model=m) for m in range(mp)]
    if any(r not in recs or 'caps' not in recs[r] for r in ranks):
        return None
    out: dict[str, Any] = {}
    for name in recs[ranks[0]]['caps']:
        spec = table[int(name)]
        n_micro = len(recs[ranks[0]]['caps'][name]['a'])
        a_list, g_list = [], []
        for j in range(n_micro):
            aa = [recs[r]['caps'][name]['a'][j] for r in ranks]
            gg = [recs[r]['caps'][name]['g'][j] for r in ranks]
            if spec['kind'] == 'col':
                a_list.append(aa[0])
                g_list.append(_cat(gg, -1))
            else:
                a_list.append(_cat(aa, -1))
                g_list.append(gg[0])
        out[name] = {'a': a_list, 'g': g_list}
    return out


def _shard_of(plan: dict[str, Any], spec: dict[str, Any], full: torch.Tensor,
              mpc: int) -> tuple[torch.Tensor, torch.Tensor | None]:
    """(weight shard, bias part) of a full combined matrix for coord mpc."""
    mp = plan['model']
    w = full[:, :-1] if spec['bias'] else full
    b = full[:, -1] if spec['bias'] else None
    if spec['kind'] == 'col':
        n = w.shape[0] // mp
        return w[mpc * n:(mpc + 1) * n], (
            None if b is None else b[mpc * n:(mpc + 1) * n])
    n = w.shape[1] // mp
    return w[:, mpc * n:(mpc + 1) * n], b


def analyse(plan: dict[str, Any], result: dict[str, Any]) -> Report:
    rep = Report()
    topo = topo_of(plan)
    table = layer_table(plan)
    pp, dp, mp = plan['pipe'], plan['data'], plan['model']
    eps = max(R.EPS['float32'],
              R.EPS[plan['kfac'].get('factor_dtype') or 'float32'],
              R.EPS[plan['kfac'].get('inv_dtype') or 'float32'])
    want_fdtype = plan['kfac'].get('factor_dtype') or 'float32'
    incs_plan = split_incarnations(plan['ops'])
    for k, inc in enumerate(result['incs']):
        st = inc['status']
        rep.stats['incarnations'] += 1
        if st == 'cap':
            rep.harness_errors.append('action cap hit')
        if st == 'deadlock':
            rep.bad('C03.deadlock', props=['C03', 'C11', 'C18'], inc=k,
                    info=inc['deadlock'])
        if st == 'rank_error':
            for r, e in inc['rank_errors'].items():
                ph = e.get('phase')
                props = ['C03', 'C18'] if ph in ('restore', 'save') \
                    else ['C03', 'C11']
                if ph == 'construct' and plan['hps']['kl_clip'].get(
                        'c', 0) is None:
                    props = ['C07']
                rep.bad('X.rank_exception', props=props, inc=k, rank=r,
                        error=e['error'], phase=ph, tb=e['tb'][-1500:])
        for v in inc['violations']:
            cl = SIM_CLAUSES.get(v['clause'], 'C03.' + v['clause'])
            props = ['C03']
            if v['clause'] == 'new_group_mismatch':
                props.append('C12')
            rep.bad(cl, props=props, inc=k,
                    **{a: b for a, b in v.items() if a != 'clause'})
        for v in inc['local_violations']:
            rep.bad(v['clause'],
                    **{a: b for a, b in v.items() if a != 'clause'})
        if st == 'ok':
            # bounded liveness: every scheduler action is a post, a wake-up
            # of a blocked rank or a completion, so a run that needs more
            # than 4 x (transport events + blocking waits) actions is
            # spinning
            budget = 4 * (inc['n_events'] + inc['probes'].get(
                'wait_unresolved', 0) + plan.get('world', 16)) + 64
            rep.stats['liveness_bound_checked'] += 1
            if inc['n_actions'] > budget:
                rep.bad('C03.liveness_bound', inc=k,
                        actions=inc['n_actions'], budget=budget)
            if inc['pending']:
                rep.bad('C03.pending_at_end', props=['C03', 'C18'], inc=k,
                        ops=inc['pending'][:5])
            if inc['open_futures']:
                rep.bad('C03.unresolved_future_at_end', inc=k,
                        futures=inc['open_futures'][:5])
    # ---------------- C12 on the assignment each rank of the job really got
    for k, inc in enumerate(result['incs']):
        recs = inc['records']
        inits = {r: recs[r][0] for r in recs
                 if recs[r] and recs[r][0].get('op') == 'init'
                 and 'views' in recs[r][0]}
        if len(inits) != pp * dp * mp:
            continue
        rep.stats['assignment_views_checked'] += 1
        for r, ini in inits.items():
            c = topo.get_coord(r)
            mpg = [topo.get_rank(pipe=c.pipe, data=c.data, model=m)
                   for m in range(mp)]
            dpg = [topo.get_rank(pipe=c.pipe, data=d, model=c.model)
                   for d in range(dp)]
            stage = [x for x in range(pp * dp * mp)
                     if topo.get_coord(x).pipe == c.pipe]
            for n, v in ini['views'].items():
                inv = ini['inv'][n]
                if inv not in stage:
                    rep.bad('C12.inv_worker_outside_stage', props=['C12'],
                            rank=r, layer=n, inv=inv, inc=k)
                    continue
                ci = topo.get_coord(inv)
                inv_dp = [topo.get_rank(pipe=ci.pipe, data=d, model=ci.model)
                          for d in range(dp)]
                inv_mp = [topo.get_rank(pipe=ci.pipe, data=ci.data, model=m)
                          for m in range(mp)]
                if v['fw'] not in mpg or v['fw'] not in inv_dp:
                    rep.bad('C12.factor_worker', props=['C12'], rank=r,
                            layer=n, got=v['fw'], inc=k)
                if v['src'] not in dpg or v['src'] not in inv_mp:
                    rep.bad('C12.src_grad_worker', props=['C12'], rank=r,
                            layer=n, got=v['src'], inc=k)
                if v['gw'] != (r in inv_mp):
                    rep.bad('C12.is_grad_worker', props=['C12'], rank=r,
                            layer=n, inc=k)
                for r2, ini2 in inits.items():
                    if n in ini2['inv'] and ini2['inv'][n] != inv:
                        rep.bad('C12.inv_worker_disagreement',
                                props=['C12', 'C03'], layer=n, ranks=[r, r2],
                                inc=k)
                        break
    # ---------------- per stage reference walk
    stage_layers: dict[int, list[str]] = {}
    for s in range(pp):
        r0 = topo.get_rank(pipe=s, data=0, model=0)
        recs0 = result['incs'][0]['records'].get(r0) or []
        if not recs0 or recs0[0].get('op') != 'init':
            return rep
        stage_layers[s] = [str(i) for i in recs0[0]['layers']]
    infos = {s: {n: {'kind': 'linear', 'bias': table[int(n)]['bias'],
                     'out': table[int(n)]['out']}
                 for n in stage_layers[s]} for s in range(pp)}

    def fresh(s: int) -> R.RefKFAC:
        return R.RefKFAC(infos[s], plan['hps'], 'eigen',
                         plan['kfac']['prediv'])

    ref_after: dict[tuple, dict[int, R.RefKFAC]] = {}
    for k, inc in enumerate(result['incs']):
        recs_all = inc['records']
        if k == 0:
            refs = {s: fresh(s) for s in range(pp)}
        else:
            prev = result['incs'][k - 1]
            ci, cj = prev['ckpt_op_index'], prev['ckpt_inc']
            if ci is None:
                refs = {s: fresh(s) for s in range(pp)}
            elif (cj, ci) not in ref_after:
                break
            else:
                refs = {}
                wiped = bool(inc['restart_op'].get('wipe_dir')) and \
                    plan['kfac'].get('ckpt_dir')
                for s in range(pp):
                    src = ref_after[(cj, ci)][s]
                    r = src.clone()
                    consts = {n: v['c'] for n, v in src.hps.items()
                              if 'c' in v}
                    facs = None if wiped else {
                        n: {'A': src.A[n], 'G': src.G[n]} for n in infos[s]}
                    r.load(src.steps, consts, facs, bool(
                        inc['restart_op'].get('compute_inverses', True)))
                    refs[s] = r
                rep.stats['restarts'] += 1
        after_restart = k > 0
        for idx, op in incs_plan[k]['ops']:
            by_rank = {}
            for r in recs_all:
                for rec in recs_all[r]:
                    if rec.get('i') == idx:
                        by_rank[r] = rec
            if op['op'] == 'train':
                ok = len(by_rank) == len(recs_all) and all(
                    'D' in rec for rec in by_rank.values())
                if not ok:
                    break
                outs = []
                for s in range(pp):
                    outs.append(_train_stage(
                        rep, plan, topo, table, refs[s], by_rank, s,
                        infos[s], eps, (k, idx), after_restart))
                # C07: one scalar for every layer and every rank, i.e. also
                # across pipeline stages
                if pp > 1 and all(o is not None for o in outs) and \
                        outs[0]['kl'] is not None:
                    vds = [v for o in outs for v in o['vds']]
                    nu_all = R.clip_scale(outs[0]['kl'], outs[0]['lr'], vds)
                    b = max(o['bound'] for o in outs)
                    if any(abs(o['nu'] - nu_all) > 2 * b * nu_all
                           for o in outs):
                        rep.bad('C07.clip_scale_is_stage_local',
                                props=['C07'], nu_global=nu_all,
                                nu_stage=[o['nu'] for o in outs],
                                key=(k, idx), pipe=pp)
            elif op['op'] == 'save':
                _save_checks(rep, plan, topo, refs, by_rank, (k, idx))
            for r, rec in by_rank.items():
                if 'state' in rec and op['op'] == 'train':
                    _state_vs_ref(rep, plan, refs, rec, r, (k, idx))
            ref_after[(k, idx)] = {s: refs[s].clone() for s in range(pp)}
    return rep


def _train_stage(rep: Report, plan: dict[str, Any], topo: Any,
                 table: list[dict[str, Any]], ref: R.RefKFAC,
                 by_rank: dict[int, Any], stage: int,
                 infos: dict[str, Any], eps: float, key: tuple,
                 after_restart: bool) -> Any:
    dp, mp = plan['data'], plan['model']
    s0 = ref.steps
    rep.stats['stage_train_ops'] += 1
    for d in range(dp):
        for m in range(mp):
            r = topo.get_rank(pipe=stage, data=d, model=m)
            if by_rank[r]['steps_before'] != s0:
                rep.bad('C05.step_count', props=['C05', 'C18'], rank=r,
                        got=by_rank[r]['steps_before'], want=s0, key=key)
            for name, calls in (by_rank[r].get('hp_calls') or {}).items():
                if any(c != s0 for c in calls):
                    rep.bad('C05.callable_arg', rank=r, name=name)
    factor_step = ref.is_factor_step()
    inv_step = ref.is_inv_step()
    moments = None
    if factor_step:
        moments = {}
        caps = [full_caps(plan, by_rank, topo, stage, d) for d in range(dp)]
        if any(c is None for c in caps):
            return
        for n, info in infos.items():
            mas = [sum(R.second_moment_a(info, a) for a in c[n]['a'])
                   / len(c[n]['a']) for c in caps]
            mgs = [sum(R.second_moment_g(info, g, None) for g in c[n]['g'])
                   / len(c[n]['g']) for c in caps]
            moments[n] = (sum(mas) / dp, sum(mgs) / dp)
    D = reassemble(plan, by_rank, topo, stage, 0, 'D', rep, key)
    if D is None:
        return
    if not (all(ref.snap[n] is not None for n in infos) or inv_step):
        if moments is not None:
            ref.update_factors(moments)
        ref.steps += 1
        rep.stats['unresumable_step_skipped'] += 1
        return
    info = ref.step(moments, D)
    bound = R.C_SOLVE * eps * info['cond']
    summary = {'nu': info['nu'], 'vds': info['vds'], 'kl': info['kl'],
               'lr': info['lr'], 'bound': bound}
    if bound > R.VACUOUS:
        rep.stats['vacuous_by_conditioning'] += 1
        return None
    rep.stats['nu_lt_1' if info['nu'] < 1 else 'nu_eq_1'] += 1
    rep.nontrivial_keys.add((
        plan['pipe'], dp, mp, plan['bias_col'], plan['bias_row'],
        info['nu'] < 1, inv_step, factor_step, after_restart,
        plan['kfac']['bucket_cap_mb'] > 0, plan['kfac']['prediv']))
    base = None
    for d in range(dp):
        G = reassemble(plan, by_rank, topo, stage, d, 'G', rep, key)
        if G is None:
            continue
        if base is None:
            base = G
        else:
            for n in G:
                e = R.rel_err(G[n], base[n])
                if e > R.C_DIFF * eps * info['cond']:
                    rep.bad('C11.data_parallel_replicas_differ', stage=stage,
                            dpc=d, layer=n, err=e, key=key)
        worst = max([R.rel_err(G[n], info['grads'][n]) for n in infos],
                    default=0.0)
        rep.stats['neox_gradient_comparisons'] += len(infos)
        if worst <= bound:
            # replicated parameters (row-parallel bias) on the other peers
            for n in infos:
                spec = table[int(n)]
                if spec['kind'] != 'row' or not spec['bias']:
                    continue
                want_b = info['grads'][n][:, -1]
                for m in range(1, mp):
                    r = topo.get_rank(pipe=stage, data=d, model=m)
                    e = R.rel_err(by_rank[r]['G'][n]['b'], want_b)
                    if e > bound:
                        rep.bad('C11.replicated_param_differs_across_mp',
                                rank=r, layer=n, err=e, key=key)
            continue
        # ---- classify: is every shard nu_local * V (rank-local clip)?
        local_ok = info['kl'] is not None
        nus = []
        if local_ok:
            for m in range(mp):
                r = topo.get_rank(pipe=stage, data=d, model=m)
                vd = 0.0
                for n in infos:
                    spec = table[int(n)]
                    vw, vb = _shard_of(plan, spec, info['V'][n], m)
                    dw, db = _shard_of(plan, spec, D[n], m)
                    vd += float((vw * dw).sum())
                    if vb is not None:
                        vd += float((vb * db).sum())
                nu_l = R.clip_scale(info['kl'], info['lr'], [vd])
                nus.append(nu_l)
                for n in infos:
                    spec = table[int(n)]
                    vw, vb = _shard_of(plan, spec, info['V'][n], m)
                    got = by_rank[r]['G'][n]
                    # error of the whole shard (weight and bias together)
                    # relative to the layer: a single tiny bias element has
                    # no meaningful relative error of its own
                    gv = got['w'].to(R.F64).reshape(-1)
                    wv = (nu_l * vw).reshape(-1)
                    if vb is not None:
                        gv = torch.cat([gv, got['b'].to(R.F64).reshape(-1)])
                        wv = torch.cat([wv, (nu_l * vb).reshape(-1)])
                    den = nu_l * float(info['V'][n].norm())
                    if float((gv - wv).norm()) > bound * max(den, 1e-300):
                        local_ok = False
        props = ['C11', 'C07'] + (['C18'] if after_restart else [])
        if local_ok and mp > 1:
            rep.bad('C11.clip_scale_is_rank_local', props=props, stage=stage,
                    dpc=d, nu_global=info['nu'], nu_local=nus, key=key,
                    mp=mp)
        else:
            rep.bad('C18.resume_gradient' if after_restart
                    else 'C11.gradient', props=props, stage=stage, dpc=d,
                    err=worst, bound=bound, key=key, nu=info['nu'],
                    mp=mp, after_restart=after_restart,
                    bias_col=plan['bias_col'], bias_row=plan['bias_row'])
    return summary


def _state_vs_ref(rep: Report, plan: dict[str, Any],
                  refs: dict[int, R.RefKFAC], rec: dict[str, Any], r: int,
                  key: tuple) -> None:
    st = rec['state']
    if 'layers' not in st:
        return
    for s, ref in refs.items():
        tol = R.C_FACTOR * R.EPS[plan['kfac'].get('factor_dtype')
                                 or 'float32'] * max(
            1.0, ref.n_updates) ** 0.5
        for n in ref.infos:
            for f, want in (('A', ref.A[n]), ('G', ref.G[n])):
                got = st['layers'].get(n, {}).get(f)
                if got is None or want is None:
                    if (got is None) != (want is None):
                        rep.bad('C11.factor_missing', rank=r, layer=n,
                                factor=f, key=key)
                    continue
                rep.stats['neox_factor_comparisons'] += 1
                e = R.rel_err(got, want)
                if e > tol:
                    rep.bad('C11.factors', props=['C11', 'C04'], rank=r,
                            layer=n, factor=f, err=e, tol=tol, key=key,
                            mp=plan['model'])


def _save_checks(rep: Report, plan: dict[str, Any], topo: Any,
                 refs: dict[int, R.RefKFAC], by_rank: dict[int, Any],
                 key: tuple) -> None:
    world = plan['pipe'] * plan['data'] * plan['model']
    if len(by_rank) != world or not all(
            'state' in rec for rec in by_rank.values()):
        return
    if any(rec.get('skipped') for rec in by_rank.values()):
        return
    own: dict[str, Any] = {}
    for r, rec in by_rank.items():
        for n, f in rec['state']['own'].items():
            if n in own:
                rep.bad('C18.two_inverse_workers', layer=n, key=key)
            own[n] = (r, f)
    all_layers = {n for ref in refs.values() for n in ref.infos}
    rep.stats['saves_checked'] += 1
    if set(own) != all_layers:
        rep.bad('C18.layers_without_inverse_worker',
                missing=sorted(all_layers - set(own)), key=key)
    dir_mode = bool(plan['kfac'].get('ckpt_dir'))
    if dir_mode and 'fs_files' in by_rank.get(0, {}):
        check_dir_files(rep, plan, by_rank[0]['fs_files'], by_rank, key)
    for r, rec in by_rank.items():
        st = rec['state']
        for s, ref in refs.items():
            if st['steps'] != ref.steps:
                rep.bad('C18.saved_steps', rank=r, got=st['steps'],
                        want=ref.steps)
            break
        if dir_mode:
            if st['has_layers']:
                rep.bad('C18.layers_in_state_despite_directory', rank=r)
            continue
        if not st['has_layers'] or set(st['layers']) != all_layers:
            rep.bad('C18.state_misses_layers', rank=r,
                    got=sorted(st.get('layers', {})),
                    want=sorted(all_layers), key=key)
            continue
        for n, (owner, f) in own.items():
            for fk in ('A', 'G'):
                a, b = st['layers'][n][fk], f[fk]
                if (a is None) != (b is None) or (
                        a is not None and not (
                            a.dtype == b.dtype and torch.equal(a, b))):
                    rep.bad('C18.state_differs_from_inverse_worker', rank=r,
                            layer=n, factor=fk, owner=owner, key=key)
    # the inverse worker's factors are the right ones (vs reference)
    for s, ref in refs.items():
        tol = R.C_FACTOR * R.EPS[plan['kfac'].get('factor_dtype')
                                 or 'float32'] * max(
            1.0, ref.n_updates) ** 0.5
        for n in ref.infos:
            if n not in own:
                continue
            for fk, want in (('A', ref.A[n]), ('G', ref.G[n])):
                got = own[n][1][fk]
                if got is None or want is None:
                    continue
                if str(got.dtype) != 'torch.' + (plan['kfac'].get(
                        'factor_dtype') or 'float32'):
                    rep.bad('C18.saved_factor_dtype', layer=n, factor=fk,
                            got=str(got.dtype), key=key)
                e = R.rel_err(got, want)
                rep.stats['saved_factor_comparisons'] += 1
                if e > tol:
                    rep.bad('C18.saved_factor_wrong', props=['C18', 'C11'],
                            layer=n, factor=fk, err=e, tol=tol, key=key,
                            mp=plan['model'])


def check_dir_files(rep: Report, plan: dict[str, Any], fs_files: dict,
                    by_rank: dict[int, Any], key: Any) -> None:
    """Directory mode: one file per layer holding the inverse worker's copy."""
    d = plan['kfac']['ckpt_dir'].rstrip('/')
    own = {}
    for r, rec in by_rank.items():
        for n, f in rec['state']['own'].items():
            own[n] = f
    for n, f in own.items():
        path = f'{d}/{n}'
        if path not in fs_files:
            rep.bad('C18.layer_file_missing', layer=n, key=key)
            continue
        got = torch.load(io.BytesIO(fs_files[path]), weights_only=False)
        for fk in ('A', 'G'):
            if (got[fk] is None) != (f[fk] is None) or (
                    got[fk] is not None
                    and not (got[fk].dtype == f[fk].dtype
                             and torch.equal(got[fk], f[fk]))):
                rep.bad('C18.layer_file_content', layer=n, factor=fk)
    extra = [p for p in fs_files if p.startswith(d + '/')
             and p[len(d) + 1:] not in own]
    if extra:
        rep.bad('C18.unexpected_files', files=extra[:4])
    rep.stats['directory_checkpoints_checked'] += 1
