"""Seeded generators of W-train plans (swarm style: everything varies)."""

from __future__ import annotations

import math
import random
from typing import Any

from simkfac import hp as hpmod, models, sched
from simkfac.ref import RefKFAC

WORLDS_QUICK = [1, 2, 2, 2, 3, 4, 4, 4, 6, 6, 8]
WORLDS_THOROUGH = [1, 2, 2, 3, 4, 4, 6, 8, 8, 12, 16]


def divisors(n: int) -> list[int]:
    return [k for k in range(1, n + 1) if n % k == 0]


def gen_placement(rng: random.Random, world: int, prediv: bool,
                  method: str) -> dict[str, Any]:
    k = rng.choice(divisors(world))
    form = rng.random()
    if form < 0.5:
        if k == world:
            gwf: Any = 'COMM_OPT'
        elif k == 1:
            gwf = 'MEM_OPT'
        elif 2 * k == world:
            gwf = 'HYBRID_OPT'
        else:
            gwf = [k, world]
    else:
        gwf = [k, world]
    colocate = True if (prediv and method == 'eigen') \
        else rng.random() < 0.5
    return {
        'gwf': gwf, 'k': k, 'colocate': colocate,
        'assignment_strategy': rng.choice(['compute', 'memory']),
        'bucket_cap_mb': rng.choice([0, 0, 1e-6, 4e-4, 2e-3, 25.0]),
        'symmetry_aware': rng.random() < 0.4,
    }


def _loguniform(rng: random.Random, lo: float, hi: float) -> float:
    return float(math.exp(rng.uniform(math.log(lo), math.log(hi))))


def gen_hps(rng: random.Random, *, callables: float = 0.35,
            clip_none: float = 0.1) -> dict[str, Any]:
    def maybe(const: Any, cyc: Any) -> dict[str, Any]:
        if rng.random() < callables:
            spec = cyc()
            if spec.get('f') == 'cycle' and rng.random() < 0.3:
                # same values, but read from state outside K-FAC
                spec['f'] = 'ext'
            return spec
        return {'c': const()}

    hps: dict[str, Any] = {}
    hps['factor_update_steps'] = maybe(
        lambda: rng.choice([1, 1, 1, 2, 3]),
        lambda: {'f': 'cycle',
                 'vals': [rng.choice([1, 2, 3]) for _ in range(
                     rng.randint(2, 3))]})
    hps['inv_update_steps'] = maybe(
        lambda: rng.choice([1, 1, 2, 3, 4]),
        lambda: {'f': 'cycle',
                 'vals': [rng.choice([1, 2, 3]) for _ in range(
                     rng.randint(2, 3))]})
    for k_ in ('factor_update_steps', 'inv_update_steps'):
        if hps[k_].get('f') == 'ext':
            hps[k_]['f'] = 'cycle'
    hps['damping'] = maybe(
        lambda: round(_loguniform(rng, 0.01, 1.0), 4),
        lambda: {'f': 'cycle',
                 'vals': [round(_loguniform(rng, 0.01, 1.0), 4)
                          for _ in range(rng.randint(2, 4))]})
    r = rng.random()
    if r < callables * 0.5:
        hps['factor_decay'] = {'f': 'expdecay',
                               'cap': rng.choice([0.95, 0.6, 0.3])}
    elif r < callables:
        hps['factor_decay'] = {
            'f': 'cycle',
            'vals': [rng.choice([0.9, 0.5, 0.2, 0.7])
                     for _ in range(rng.randint(2, 3))]}
    else:
        hps['factor_decay'] = {'c': rng.choice([0.95, 0.7, 0.5, 0.3, 1.0])}
    if rng.random() < clip_none:
        hps['kl_clip'] = {'c': None}
    else:
        hps['kl_clip'] = maybe(
            lambda: rng.choice([0.001, 0.01, 0.1, 1e6]),
            lambda: {'f': 'cycle',
                     'vals': [rng.choice([0.001, 0.05, 1e6, 0.3])
                              for _ in range(rng.randint(2, 3))]})
    hps['lr'] = maybe(
        lambda: rng.choice([0.1, 0.5, 1.0, 0.02]),
        lambda: {'f': 'cycle', 'vals': [rng.choice([0.1, 1.0, 0.03, 0.4])
                                        for _ in range(rng.randint(2, 3))]})
    # constants given as Python ints where a float is the usual spelling
    # (lr=1, kl_clip=2, ...): legal, and arithmetic on them must not depend
    # on the type of the literal
    for name, ints in (('lr', [1]), ('kl_clip', [1, 2]),
                       ('factor_decay', [1]), ('damping', [1])):
        if isinstance(hps[name].get('c'), float) and rng.random() < 0.1:
            hps[name] = {'c': rng.choice(ints)}
    return hps


def gen_scheduler(rng: random.Random, hps: dict[str, Any]) -> dict[str, Any]:
    out: dict[str, Any] = {}
    for name in hpmod.HP_NAMES:
        if 'c' not in hps[name] or hps[name]['c'] is None:
            continue
        if rng.random() < (0.7 if name in hpmod.INT_HPS else 0.45):
            if name in hpmod.INT_HPS:
                vals = [rng.choice([1, 2, 1.5, 0.5, 1]) for _ in range(3)]
            elif name == 'factor_decay':
                vals = [rng.choice([1.0, 0.9, 0.5, 1.05]) for _ in range(3)]
            else:
                vals = [rng.choice([0.5, 2.0, 1.0, 0.1, 3.0, 1.7])
                        for _ in range(3)]
            out[name] = {'f': 'cycle', 'vals': vals}
    return out


class Mirror:
    """Step/hyper-parameter bookkeeping used to keep plans legal."""

    def __init__(self, hps: dict[str, Any], sched_spec: dict[str, Any]):
        self.ref = RefKFAC({}, hps, 'eigen', False)
        self.sched = sched_spec
        self.saved: Any = None

    def legal(self) -> bool:
        r = self.ref
        try:
            f, i = r.hp('factor_update_steps'), r.hp('inv_update_steps')
            d, a = r.hp('damping'), r.hp('factor_decay')
        except Exception:  # noqa: BLE001
            return False
        if f < 1 or i < 1 or d <= 0 or not (0 <= a <= 1):
            return False
        kl = r.hp('kl_clip')
        return kl is None or kl > 0


def ops_legal(plan: dict[str, Any]) -> bool:
    """Is this history inside the domain?  (Used to reject candidates while
    a failing plan is being minimised: removing or reordering operations
    must not turn it into one the library is documented not to support.)

    * a save with factors before the first factor update is skipped at run
      time and leaves the previous checkpoint in place;
    * a state without factors is resumable only if the next training step
      updates the factors AND refreshes; one loaded with
      compute_inverses=False only if the next training step refreshes -
      with the intervals as they stand when that step runs, i.e. after any
      scheduler steps in between;
    * with a mid-operation crash the job may resume from any earlier
      checkpoint, so every save must hold factors and every restart must
      recompute."""
    ops = plan['ops']
    sched = plan.get('scheduler') or {}
    m = Mirror(plan['hps'], sched)
    crash = False       # a crash countdown is armed and has not fired yet
    all_full = True     # every checkpoint written so far holds factors
    ck: Any = None
    factors_exist = False
    pending: str | None = None
    try:
        for op in ops:
            k = op['op']
            if k == 'crash_arm':
                if not all_full:
                    return False
                crash = True
            elif k == 'train':
                if pending == 'both' and not (m.ref.is_factor_step()
                                              and m.ref.is_inv_step()):
                    return False
                if pending == 'refresh' and not m.ref.is_inv_step():
                    return False
                pending = None
                if not m.legal():
                    return False
                m.ref.steps += 1
                factors_exist = True
            elif k == 'sched' and sched:
                m.ref.sched_step(sched, op.get('step'))
                if not m.legal():
                    return False
            elif k == 'save':
                inc_f = op.get('include_factors', True)
                if inc_f and not factors_exist:
                    continue
                if crash and not inc_f:
                    return False
                all_full = all_full and inc_f
                ck = (m.ref.steps,
                      {a: dict(b) for a, b in m.ref.hps.items()}, inc_f)
            elif k == 'restart':
                ci = op.get('compute_inverses', True)
                if crash and not ci:
                    return False
                crash = False
                if ck is None:
                    m = Mirror(plan['hps'], sched)
                    factors_exist, pending = False, None
                    continue
                m.ref.steps = ck[0]
                m.ref.hps = {a: dict(b) for a, b in ck[1].items()}
                factors_exist = ck[2]
                pending = 'both' if not ck[2] else (
                    None if ci else 'refresh')
    except Exception:  # noqa: BLE001
        return False
    return True


def gen_ops(rng: random.Random, hps: dict[str, Any],
            sched_spec: dict[str, Any], world: int, *, max_ops: int,
            restarts: float, extras: float, acc: int, hook: bool,
            emulate_ok: bool = False) -> list[dict[str, Any]] | None:
    n = rng.randint(1, 4) if rng.random() < 0.5 else rng.randint(4, max_ops)
    m = Mirror(hps, sched_spec)
    ops: list[dict[str, Any]] = []
    it = 0
    have_ckpt: Any = None  # (steps, consts, include_factors)
    trained = 0
    # a state saved before the first factor update holds A=G=None and is not
    # loadable with compute_inverses=True ("update_a_factor() must be called
    # at least once"); such saves are outside the generated domain
    factors_exist = False
    all_saves_full = True
    while len(ops) < n:
        r = rng.random()
        if r < extras * 0.25:
            ops.append({'op': 'eval', 'it': 1000 + it})
        elif r < extras * 0.35:
            ops.append({'op': 'reset'})
        elif r < extras * 0.45 and trained:
            ks = rng.sample(range(world), rng.randint(1, world))
            ops.append({'op': 'memq', 'ranks': sorted(ks)})
        elif r < extras * 0.7 and sched_spec and trained:
            step = rng.choice([None, None, rng.randint(0, 9)])
            f_old = m.ref.hp('factor_update_steps')
            i_old = m.ref.hp('inv_update_steps')
            m.ref.sched_step(sched_spec, step)
            if not m.legal():
                return None
            sop: dict[str, Any] = {'op': 'sched', 'step': step}
            s_ = m.ref.steps
            flips = (s_ % f_old == 0) != (
                s_ % m.ref.hp('factor_update_steps') == 0) or (
                s_ % i_old == 0) != (s_ % m.ref.hp('inv_update_steps') == 0)
            if flips or (m.ref.steps + len(ops)) % 2 == 0:
                # biased placement: always when this scheduler step changes
                # what the CURRENT K-FAC step is (factor update / refresh)
                # validation pass right before the scheduler step (derived,
                # not drawn: the choice tape of older seeds is unchanged)
                sop['val_first'] = True
            ops.append(sop)
        elif r < extras * 0.7 + restarts * 0.5 and trained:
            inc_f = rng.random() < 0.85 and factors_exist
            ranks = rng.choice([[0], None, [0]])
            if ranks is None and rng.random() < 0.3 and world > 1:
                ranks = sorted({0} | set(
                    rng.sample(range(world), rng.randint(1, world))))
            ops.append({'op': 'save', 'ranks': ranks,
                        'include_factors': inc_f})
            all_saves_full = all_saves_full and inc_f
            have_ckpt = (m.ref.steps,
                         {k: dict(v) for k, v in m.ref.hps.items()}, inc_f)
        elif r < extras * 0.7 + restarts and have_ckpt is not None \
                and ops[-1]['op'] != 'restart':
            steps, hp_saved, inc_f = have_ckpt
            # optionally lose some work first, maybe mid-operation
            lost = rng.randint(0, 2)
            mid_op_crash = lost and rng.random() < 0.6 and all_saves_full
            if mid_op_crash:
                # the crash may hit before the writer rank has executed the
                # latest save, so the job may resume from ANY earlier
                # checkpoint: only legal if every one of them is resumable
                # anywhere (factors included, inverses recomputed)
                ops.append({'op': 'crash_arm',
                            'events': rng.randint(1, 40)})
            for _ in range(lost):
                ops.append({'op': 'train', 'it': it})
                it += 1
            m.ref.steps = steps
            m.ref.hps = {k: dict(v) for k, v in hp_saved.items()}
            refresh_next = m.ref.is_inv_step()
            factor_next = m.ref.is_factor_step()
            ci = rng.random() < 0.7 or bool(mid_op_crash)
            if not inc_f:
                if not (refresh_next and factor_next):
                    # a state without factors is only resumable on a step
                    # that updates factors and refreshes: reject the plan
                    return None
            elif not ci and not refresh_next:
                ci = True
            factors_exist = inc_f
            rop = {'op': 'restart', 'compute_inverses': ci}
            if rng.random() < 0.3:
                rop['try_bad'] = rng.choice(['drop', 'extra'])
            if rng.random() < 0.5:
                rop['hp_shift'] = rng.choice(['scale', 'none'])
            ops.append(rop)
            if rng.random() < 0.3:
                # train on, then roll back to the SAME checkpoint again
                for _ in range(rng.randint(1, 2)):
                    ops.append({'op': 'train', 'it': it})
                    it += 1
                ops.append({k: v for k, v in rop.items() if k != 'try_bad'})
            if not inc_f or not ci:
                # resumable only on exactly the next step as the intervals
                # stand in the checkpoint: nothing (no scheduler step) may
                # come between the load and that step
                ops.append({'op': 'train', 'it': it})
                it += 1
                trained += 1
                factors_exist = True
                if not m.legal():
                    return None
                m.ref.steps += 1
        else:
            op: dict[str, Any] = {'op': 'train', 'it': it}
            if rng.random() < 0.06:
                op['zero'] = True
            if not hook and rng.random() < 0.12:
                op['extra_fwd'] = True
            if acc >= 2 and rng.random() < 0.15:
                op['reset_after'] = rng.randint(0, acc - 2)
            elif not hook and factors_exist and rng.random() < 0.06:
                # reset_batch() after the last backward pass and before
                # step(): a factor-update step without fresh statistics
                # (factors stay, are still reduced once, inverses refresh)
                op['reset_after'] = acc - 1
            if rng.random() < 0.1:
                # an eval-mode probe before micro-batch k of this iteration
                op['mid_eval'] = rng.randrange(acc)
                # ... or between that micro-batch's forward and backward pass
                # (no extra draw: the choice tape of older seeds is unchanged)
                if (it + op['mid_eval']) % 2 == 0:
                    op['mid_eval_nested'] = True
            ops.append(op)
            it += 1
            trained += 1
            factors_exist = True
            if not m.legal():
                return None
            m.ref.steps += 1
    # a restart needs at least one op after it to observe the resume
    if ops and ops[-1]['op'] == 'restart':
        ops.append({'op': 'train', 'it': it})
    if not any(o['op'] == 'train' for o in ops):
        ops.append({'op': 'train', 'it': it})
    return ops


def gen_train_plan(rng: random.Random, *, tier: str = 'quick',
                   min_world: int = 1, max_world: int | None = None,
                   restarts: float = 0.0, extras: float = 0.5,
                   max_ops: int = 8, zoo: bool = True,
                   callables: float = 0.35, scheduler: float = 0.25,
                   monitors: dict[str, float] | None = None,
                   worlds: list[int] | None = None,
                   clip_none: float = 0.1,
                   low_precision: float = 0.0) -> dict[str, Any]:
    while True:
        worlds_ = worlds or (
            WORLDS_QUICK if tier == 'quick' else WORLDS_THOROUGH)
        worlds_ = [w for w in worlds_ if w >= min_world
                   and (max_world is None or w <= max_world)]
        world = rng.choice(worlds_)
        method = rng.choice(['eigen', 'eigen', 'inverse'])
        prediv = rng.random() < 0.5
        placement = gen_placement(rng, world, prediv, method)
        hps = gen_hps(rng, callables=callables, clip_none=clip_none)
        sched_spec = gen_scheduler(rng, hps) \
            if rng.random() < scheduler else {}
        acc = rng.choice([1, 1, 2, 3])
        hook = rng.random() < 0.6
        ops = gen_ops(rng, hps, sched_spec, world, max_ops=max_ops,
                      restarts=restarts, extras=extras, acc=acc, hook=hook)
        if ops is None:
            continue
        mspec = models.gen_model_spec(
            rng, zoo=zoo, max_layers=3 if tier == 'quick' else 5)
        mon = monitors or {'read_factors': 0.5, 'memory': 0.5, 'twin': 0.25,
                           'read_hps': 0.4}
        plan: dict[str, Any] = {
            'kind': 'train', 'world': world,
            'initialized': True if world > 1 else rng.random() < 0.5,
            'model': mspec, 'model_seed': rng.randrange(1 << 30),
            'data_seed': rng.randrange(1 << 30),
            'method': method, 'prediv': prediv, 'placement': placement,
            'hps': hps, 'scheduler': sched_spec, 'acc': acc, 'hook': hook,
            'loss_gain': rng.choice([1.0, 3.0, 0.3]),
            'loss_scaling': rng.random() < 0.2,
            'opt_lr': rng.choice([0.01, 0.03]),
            'factor_dtype': None, 'inv_dtype': None,
            'ops': ops,
            'monitors': {k: rng.random() < p for k, p in mon.items()},
            'sim': {
                'policy': rng.choice(sched.POLICIES),
                'poison': rng.random() < 0.6,
                'late_read': rng.random() < 0.25,
                'unordered': rng.random() < 0.25,
                'latency': rng.choice([0.0, 1e-4, 1e-2]),
                'bandwidth': rng.choice([1e6, 1e9]),
                'sched_seed': rng.randrange(1 << 30),
                'mem_ckpt': restarts > 0 and rng.random() < 0.5,
                # torchrun-style launcher variables: unset, or this many
                # ranks per node (LOCAL_RANK = RANK % local_size)
                'local_size': rng.choice([None, None, 1, 2, 4]),
            },
        }
        r = rng.random()
        if r < 0.15:
            plan['factor_dtype'] = rng.choice(['float32', 'float64'])
        if rng.random() < 0.15:
            plan['inv_dtype'] = rng.choice(['float32', 'float64'])
        if low_precision and rng.random() < low_precision:
            plan['factor_dtype'] = rng.choice(['bfloat16', 'float32'])
            plan['inv_dtype'] = rng.choice(['bfloat16', 'float32'])
        elif low_precision and world <= 2 and mspec['input'][
                'kind'] == 'dense' and rng.random() < low_precision:
            # float16 factors: many rows of large (but representable)
            # activations, so that sum(x^2) leaves the float16 range while
            # mean(x^2) stays well inside it
            plan['factor_dtype'] = 'float16'
            plan['inv_dtype'] = rng.choice([None, 'float32'])
            plan['loss_scaling'] = False
            mspec['input_gain'] = rng.choice([1.0, 30.0, 40.0])
            mspec['min_batch'], mspec['max_batch'] = 24, 32
        if not ops_legal(plan):
            # belt and braces: the generator's own bookkeeping and the
            # independent legality walk must agree
            continue
        return plan
