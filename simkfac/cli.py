"""Command line of the checks (run as a script so nothing is imported twice)."""

from __future__ import annotations

import argparse
import os
import sys

# glibc per-thread arenas + trim/mmap churn dominate when 16 processes each
# create and destroy rank threads thousands of times; pin them down for the
# (spawned) worker processes.
os.environ.setdefault('MALLOC_ARENA_MAX', '1')
os.environ.setdefault('MALLOC_TRIM_THRESHOLD_', '1000000000')
os.environ.setdefault('MALLOC_MMAP_THRESHOLD_', '1000000000')
os.environ.setdefault('MALLOC_TOP_PAD_', '67108864')
os.environ.setdefault('PYTHONHASHSEED', '0')
HERE = os.path.dirname(os.path.dirname(os.path.abspath(__file__)))
sys.path.insert(0, HERE)


def main() -> int:
    ap = argparse.ArgumentParser()
    ap.add_argument('pid')
    ap.add_argument('--tier', default=os.environ.get('VERIF_TIER', 'quick'))
    ap.add_argument('--replay')
    ap.add_argument('--plan')
    ap.add_argument('--write-replay')
    ap.add_argument('--cases', type=int)
    ap.add_argument('--workers', type=int)
    ap.add_argument('--wall', type=float)
    ap.add_argument('--seed', type=int,
                    default=int(os.environ.get('VERIF_SEED', '0') or 0))
    a = ap.parse_args()
    if a.tier not in ('quick', 'thorough'):
        a.tier = 'quick'
    from simkfac import runner

    if a.plan and a.write_replay:
        return runner.write_replay(a.pid, a.plan, a.write_replay)
    if a.replay:
        return runner.replay(a.pid, a.replay)
    return runner.drive(a.pid, a.tier, a.seed, workers=a.workers,
                        n_cases=a.cases, wall_cap=a.wall)


if __name__ == '__main__':
    sys.exit(main())
