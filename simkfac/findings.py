"""Predicates of the known findings listed in /verif/known_findings.json.

Each predicate is narrow and positive: it must recognise the listed failing
history and nothing else, so that any other violation of the same property is
still reported.
"""

from __future__ import annotations

from typing import Any, Callable

PREDICATES: dict[str, Callable[[dict[str, Any], dict[str, Any]], bool]] = {}
