"""Predicates of the known findings listed in /verif/known_findings.json.

Each predicate is narrow and positive: it must recognise the listed failing
history and nothing else, so that any other violation of the same property is
still reported.
"""

from __future__ import annotations

from typing import Any, Callable



def neox_clip_scale_local(plan: dict[str, Any], v: dict[str, Any]) -> bool:
    """GPT-NeoX: the KL-clip scale is computed from the rank-local partial
    inner product (its model-parallel shard, its pipeline stage).

    Matches only violations the oracle has positively explained that way:
    every shard equals nu_local * V with nu_local the clip formula applied
    to the rank's own inner product (oracle_neox._train_stage), or the
    per-stage scales differ from the scale over all stages.
    """
    if plan.get('kind') != 'neox':
        return False
    kl = plan['hps']['kl_clip']
    if 'c' in kl and kl['c'] is None:
        return False
    if v['clause'] == 'C11.clip_scale_is_rank_local':
        return plan['model'] > 1 and v.get('mp') == plan['model']
    if v['clause'] == 'C07.clip_scale_is_stage_local':
        return plan['pipe'] > 1
    return False


PREDICATES: dict[str, Callable[[dict[str, Any], dict[str, Any]], bool]] = {
    'neox_clip_scale_local': neox_clip_scale_local,
}
