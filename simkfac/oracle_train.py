"""Oracles over the recorded history of a W-train execution."""

from __future__ import annotations

from collections import Counter
from typing import Any

import torch

from simkfac import hp as hpmod
from simkfac import ref as R
from simkfac.train import split_incarnations

# clause prefix -> property; a few clauses count for several properties
EXTRA_PROPS = {
    'X.rank_exception': ['C03'],
    'C03.new_group_mismatch': ['C03', 'C12'],
}


def props_of(clause: str) -> list[str]:
    if clause in EXTRA_PROPS:
        return EXTRA_PROPS[clause]
    return [clause.split('.')[0]]


SIM_CLAUSES = {
    'new_group_mismatch': 'C03.new_group_mismatch',
    'nonmember_collective': 'C03.nonmember_collective',
    'root_not_member': 'C03.root_not_member',
    'collective_mismatch': 'C03.collective_mismatch',
    'buffer_written_in_flight': 'C03.buffer_written_in_flight',
    'completion_error': 'C03.completion_error',
}


class Report:
    def __init__(self) -> None:
        self.violations: list[dict[str, Any]] = []
        self.stats: Counter = Counter()
        self.per_op: list[dict[str, Any]] = []
        self.harness_errors: list[str] = []
        self.nontrivial_keys: set = set()

    def bad(self, clause: str, **detail: Any) -> None:
        props = detail.pop('props', None) or props_of(clause)
        self.violations.append(
            {'clause': clause, 'props': props, **detail})

    def for_prop(self, pid: str) -> list[dict[str, Any]]:
        return [v for v in self.violations if pid in v['props']]


def coarsest_eps(plan: dict[str, Any]) -> float:
    names = {'float32', plan['model']['dtype']}
    names.add(plan.get('factor_dtype') or plan['model']['dtype'])
    names.add(plan.get('inv_dtype') or 'float32')
    return max(R.EPS[n] for n in names)


def _sizes(info: dict[str, Any], D: torch.Tensor) -> tuple[int, int]:
    return int(D.shape[1]), int(D.shape[0])  # (nA, nG)


def _tri(n: int) -> int:
    return n * (n + 1) // 2


def expected_traffic(plan: dict[str, Any], dims: dict[str, tuple],
                     asg: dict[int, Any], rank: int, factor_step: bool,
                     inv_step: bool, grads: bool = True,
                     ) -> tuple[int, Counter]:
    """What the strategy implies for one rank in one step (C13)."""
    world = plan['world']
    sym = plan['placement']['symmetry_aware']
    total_ar = 0
    bc: Counter = Counter()
    if world == 1:
        return 0, bc
    for name, (na, ng) in dims.items():
        if factor_step:
            total_ar += (_tri(na) + _tri(ng)) if sym else (na * na + ng * ng)
        col = tuple(sorted(r for r in range(world) if asg[r][name]['gw']))
        k = len(col)
        if inv_step and k > 1 and rank in col:
            if plan['method'] == 'inverse':
                sizes = [_tri(na) if sym else na * na,
                         _tri(ng) if sym else ng * ng]
            elif plan['prediv']:
                sizes = [na * na, ng * ng, ng * na]
            else:
                sizes = [na * na, na, ng * ng, ng]
            for s in sizes:
                bc[(col, s)] += 1
        if k < world and grads:
            width = world // k
            row = tuple(range(rank // width * width,
                              rank // width * width + width))
            bc[(row, ng * na)] += 1
    return total_ar, bc


def _assignment_views(rep: Report, plan: dict[str, Any],
                      asg: dict[int, Any], inc: int) -> None:
    """C06 on the assignment each rank of the job actually ended up with
    (built by KFACPreconditioner from whatever it takes for 'my rank'):
    per layer, the ranks that call themselves gradient workers form a group
    of k, hold every inverse worker, are their own gradient source, and the
    sources split the world into receiver groups of equal size."""
    W, k = plan['world'], plan['placement']['k']
    layers = sorted(asg[0])
    rep.stats['assignment_views_checked'] += 1
    for n in layers:
        if any(n not in asg[r] for r in asg):
            rep.bad('C06.layers', props=['C06'], layer=n, inc=inc)
            continue
        inv0 = asg[0][n]['inv']
        for r in asg:
            if asg[r][n]['inv'] != inv0:
                rep.bad('C06.inv_worker_disagreement', props=['C06', 'C03'],
                        rank=r, layer=n, inc=inc)
        G = {r for r in asg if asg[r][n]['gw']}
        if len(G) != k:
            rep.bad('C06.grad_worker_count', props=['C06'], layer=n,
                    got=sorted(G), k=k, inc=inc)
            continue
        if not set(inv0.values()) <= G:
            rep.bad('C06.inv_workers_not_in_one_worker_group',
                    props=['C06'], layer=n, invs=inv0, workers=sorted(G),
                    inc=inc)
        recv: dict[int, int] = {}
        for r in asg:
            src = asg[r][n]['src']
            if src not in G:
                rep.bad('C06.src_grad_worker', props=['C06'], rank=r,
                        layer=n, src=src, workers=sorted(G), inc=inc)
            elif r in G and src != r:
                rep.bad('C06.src_of_grad_worker_is_itself', props=['C06'],
                        rank=r, layer=n, src=src, inc=inc)
            recv[src] = recv.get(src, 0) + 1
        if set(recv) <= G and any(v != W // k for v in recv.values()):
            rep.bad('C06.not_a_partition', props=['C06'], layer=n,
                    receivers=recv, inc=inc)


def analyse(plan: dict[str, Any], result: dict[str, Any]) -> Report:
    rep = Report()
    incs_plan = split_incarnations(plan['ops'])
    eps = coarsest_eps(plan)
    eps_f = R.EPS[plan.get('factor_dtype') or plan['model']['dtype']]
    want_fdtype = plan.get('factor_dtype') or plan['model']['dtype']
    world = plan['world']
    emulate = plan.get('emulate_world')

    # ---------------- transport level (C03 and friends)
    for k, inc in enumerate(result['incs']):
        st = inc['status']
        rep.stats['incarnations'] += 1
        if st == 'cap':
            rep.harness_errors.append('action cap hit')
        if st == 'deadlock':
            rep.bad('C03.deadlock', inc=k, info=inc['deadlock'])
        if st == 'rank_error':
            low = {plan.get('factor_dtype'), plan.get('inv_dtype')} & {
                'bfloat16', 'float16'}
            for r, e in inc['rank_errors'].items():
                if low and 'LinAlgError' in e['error']:
                    # a 16-bit factor cannot hold x + damping when x is 1e5:
                    # numerical breakdown of the chosen precision, not a
                    # property of the code (C01: "up to a tolerance that
                    # scales with the conditioning")
                    rep.stats['vacuous_low_precision_breakdown'] += 1
                    continue
                props = ['C03']
                if e.get('phase') == 'restore' or k > 0:
                    # a valid state must load, and the resumed job must run
                    props.append('C09')
                if e.get('phase') == 'train':
                    # a step that raises produces no gradients at all (and
                    # leaves the factor update of that step unfinished)
                    props += ['C05', 'C10', 'C01', 'C04']
                if e.get('phase') == 'construct' and \
                        plan['hps']['kl_clip'].get('c', 0) is None:
                    props = ['C07']
                if e.get('phase') == 'construct' and 'must produce' in \
                        e['error']:
                    props = ['C06']
                rep.bad('X.rank_exception', inc=k, rank=r, error=e['error'],
                        phase=e.get('phase'), tb=e['tb'][-1200:],
                        props=props)
        for v in inc['violations']:
            rep.bad(SIM_CLAUSES.get(v['clause'], 'C03.' + v['clause']),
                    inc=k, **{a: b for a, b in v.items() if a != 'clause'})
        for v in inc['local_violations']:
            rep.bad(v['clause'],
                    **{a: b for a, b in v.items() if a != 'clause'})
        if st == 'ok':
            # bounded liveness: every scheduler action is a post, a wake-up
            # of a blocked rank or a completion, so a run that needs more
            # than 4 x (transport events + blocking waits) actions is
            # spinning
            budget = 4 * (inc['n_events'] + inc['probes'].get(
                'wait_unresolved', 0) + plan.get('world', 16)) + 64
            rep.stats['liveness_bound_checked'] += 1
            if inc['n_actions'] > budget:
                rep.bad('C03.liveness_bound', inc=k,
                        actions=inc['n_actions'], budget=budget)
            if inc['pending']:
                rep.bad('C03.pending_at_end', inc=k, ops=inc['pending'][:5])
            if inc['open_futures']:
                rep.bad('C03.unresolved_future_at_end', inc=k,
                        futures=inc['open_futures'][:5])
    if result['status'] in ('deadlock', 'rank_error', 'cap'):
        rep.stats['aborted_runs'] += 1

    # ---------------- reference walk
    first = result['incs'][0]['records']
    if 0 not in first or not first[0] or first[0][0].get('op') != 'init':
        return rep
    infos = first[0][0]['infos']
    ref_after: dict[tuple, R.RefKFAC] = {}
    unint_after: dict[tuple, R.RefKFAC] = {}
    hist: dict[int, list[tuple]] = {}

    def fresh() -> R.RefKFAC:
        return R.RefKFAC(infos, plan['hps'], plan['method'], plan['prediv'])

    for k, inc in enumerate(result['incs']):
        recs = inc['records']
        if k == 0:
            ref, unint, eff = fresh(), None, []
        else:
            prev = result['incs'][k - 1]
            ci, cj = prev['ckpt_op_index'], prev['ckpt_inc']
            if ci is None or (cj, ci) not in ref_after:
                if ci is not None:
                    break  # checkpoint of an op the oracle could not follow
                ref, unint, eff = fresh(), None, []
            else:
                src = ref_after[(cj, ci)]
                ref = src.clone()
                saverec = None
                for r in sorted(result['incs'][cj]['records']):
                    for rec in result['incs'][cj]['records'][r]:
                        if rec.get('i') == ci and rec.get('saved'):
                            saverec = saverec or rec
                inc_f = saverec is not None and 'factors' in saverec
                consts = {n: s['c'] for n, s in src.hps.items() if 'c' in s}
                facs = None
                if inc_f:
                    facs = {n: {'A': src.A[n], 'G': src.G[n]}
                            for n in infos}
                ref.load(src.steps, consts, facs,
                         bool(inc['restart_op'].get('compute_inverses',
                                                    True)))
                unint = (unint_after.get((cj, ci)) or src).clone()
                eff = list(hist[cj][:hist[cj].index((cj, ci)) + 1])
                rep.stats['restarts'] += 1
        prev_factors: dict[int, Any] = {}
        impl_snap: dict[int, Any] = {}
        asg = {}
        for r in recs:
            if recs[r] and recs[r][0].get('op') == 'init':
                asg[r] = recs[r][0].get('assignment') or {}
        if len(asg) == plan['world'] and infos:
            _assignment_views(rep, plan, asg, k)
        if k > 0 and plan['world'] > 1 and len(asg) == plan['world']:
            _restore_traffic(rep, plan, ref, recs, asg)
        if k > 0 and all(ref.snap[n] is not None for n in infos) and infos:
            # second-order data recomputed at load time comes from the
            # restored factors and the damping in effect at the restored
            # step: C01 is evaluated on the steps that use it
            d_load = ref.snap[next(iter(infos))][2]
            for r in recs:
                rr = next((x for x in recs[r] if x.get('op') == 'restore'),
                          None)
                if rr and rr.get('compute_inverses') and rr.get(
                        'restored_factors') and all(
                            f.get('A') is not None and f.get('G') is not None
                            for f in rr['restored_factors'].values()):
                    impl_snap[r] = (rr['restored_factors'], d_load)
        complete = True
        for idx, op in incs_plan[k]['ops']:
            by_rank = {}
            for r in recs:
                for rec in recs[r]:
                    if rec.get('i') == idx:
                        by_rank[r] = rec
            all_done = len(by_rank) == len(recs) and all(
                rec.get('done') for rec in by_rank.values())
            if not all_done:
                complete = False
            if op['op'] == 'train':
                ok = len(by_rank) == len(recs) and all(
                    'D' in rec for rec in by_rank.values())
                if not ok:
                    break
                _train_op(rep, plan, ref, unint, by_rank, infos, eps, eps_f,
                          want_fdtype, prev_factors, impl_snap, asg, op,
                          (k, idx), len(eff))
            elif op['op'] == 'sched':
                _sched_op(rep, plan, ref, by_rank, op)
                if unint is not None and plan.get('scheduler'):
                    unint.sched_step(plan['scheduler'], op.get('step'))
            elif op['op'] == 'save':
                for r, rec in by_rank.items():
                    if rec.get('saved'):
                        _check_saved_state(rep, rec, ref, eps_f)
            ref_after[(k, idx)] = ref.clone()
            if unint is not None:
                unint_after[(k, idx)] = unint.clone()
            eff.append((k, idx))
        hist[k] = eff
        if not complete and inc['status'] == 'ok':
            rep.harness_errors.append('incomplete records in an ok run')
    return rep


def _totals(c: Counter) -> Counter:
    out: Counter = Counter()
    for (members, numel), n in c.items():
        out[(members, 'elements')] += numel * n
    return out


def _restore_traffic(rep: Report, plan: dict[str, Any], ref: R.RefKFAC,
                     recs: dict[int, Any], asg: dict[int, Any]) -> None:
    """C13/C03: what load_state_dict communicates is what an inverse-update
    step would: inverse broadcasts inside gradient-worker groups only."""
    for r in recs:
        rec = next((x for x in recs[r] if x.get('op') == 'restore'), None)
        if rec is None or 'traffic' not in rec or not asg.get(r):
            continue
        computed = rec.get('compute_inverses') and rec.get(
            'include_factors') and all(
                ref.A[n] is not None and ref.G[n] is not None
                for n in ref.infos)
        dims = {n: (int(ref.A[n].shape[0]), int(ref.G[n].shape[0]))
                for n in ref.infos if ref.A[n] is not None}
        if computed:
            _, want = expected_traffic(plan, dims, asg, r, False, True,
                                       grads=False)
        else:
            want = Counter()
        got: Counter = Counter()
        for e in rec['traffic']:
            if e[0] == 'broadcast':
                got[(tuple(e[3]), e[6])] += 1
            else:
                rep.bad('C13.unexpected_collective_in_load', rank=r,
                        kind=e[0])
        rep.stats['restore_traffic_checks'] += 1
        got, want = _totals(got), _totals(want)
        if got != want:
            rep.bad('C13.load_broadcast_traffic', rank=r,
                    got=sorted((list(k[0]), k[1], v)
                               for k, v in got.items()),
                    want=sorted((list(k[0]), k[1], v)
                                for k, v in want.items()))


def _check_saved_state(rep: Report, rec: dict[str, Any], ref: R.RefKFAC,
                       eps_f: float) -> None:
    """The state handed to torch.save is what the statement says (C09)."""
    if rec['steps'] != ref.steps:
        rep.bad('C09.saved_steps', got=rec['steps'], want=ref.steps)
    for n, s in ref.hps.items():
        if 'c' in s:
            if n not in rec['consts'] or rec['consts'][n] != s['c']:
                rep.bad('C09.saved_hp', name=n, got=rec['consts'].get(n),
                        want=s['c'])
        elif n in rec['consts']:
            rep.bad('C09.saved_hp', name=n, got='callable saved')
    rep.stats['saved_states_checked'] += 1


def _moments(infos: dict[str, Any], by_rank: dict[int, Any],
             ) -> dict[str, tuple]:
    out = {}
    for n, info in infos.items():
        mas, mgs = [], []
        for r in sorted(by_rank):
            cap = by_rank[r]['caps'].get(n, {'a': [], 'g': []})
            ls = by_rank[r].get('loss_scale')
            if cap['a']:
                mas.append(sum(R.second_moment_a(info, a)
                               for a in cap['a']) / len(cap['a']))
            if cap['g']:
                # each micro-batch is divided by the scale it ran under;
                # after a mid-iteration reset only the later ones remain
                sc = [None] * len(cap['g']) if not ls \
                    else ls[len(ls) - len(cap['g']):]
                mgs.append(sum(R.second_moment_g(info, g, c)
                               for g, c in zip(cap['g'], sc))
                           / len(cap['g']))
        ma = sum(mas) / len(mas) if mas else None
        mg = sum(mgs) / len(mgs) if mgs else None
        out[n] = (ma, mg)
    return out


def _train_op(rep: Report, plan: dict[str, Any], ref: R.RefKFAC,
              unint: R.RefKFAC | None, by_rank: dict[int, Any],
              infos: dict[str, Any], eps: float, eps_f: float,
              want_fdtype: str, prev_factors: dict[int, Any],
              impl_snap: dict[int, Any], asg: dict[int, Any],
              op: dict[str, Any], key: tuple, eff_pos: int) -> None:
    world = plan['world']
    r0 = min(by_rank)
    s = ref.steps
    ref.ext_it = op['it']
    if unint is not None:
        unint.ext_it = op['it']
    rep.stats['train_ops'] += 1
    for r, rec in by_rank.items():
        if rec['steps_before'] != s:
            rep.bad('C05.step_count', rank=r, got=rec['steps_before'],
                    want=s, key=key)
        for name, calls in (rec.get('hp_calls') or {}).items():
            if any(c != rec['steps_before'] for c in calls):
                rep.bad('C05.callable_arg', rank=r, name=name,
                        calls=calls[:8], step=rec['steps_before'])
            if calls:
                rep.stats['callable_hp_evaluations'] += len(calls)
    D = by_rank[r0]['D']
    finite = all(bool(torch.isfinite(d).all()) for d in D.values())
    # a training run that has numerically diverged (float32 activations whose
    # squares overflow while the float64 reference does not) says nothing
    # about the properties: that step and everything after it in the
    # incarnation is vacuous
    for rec in by_rank.values():
        for c in rec.get('caps', {}).values():
            for t in c['a'] + c['g']:
                if not bool(torch.isfinite(t).all()) or float(
                        t.abs().max()) > 1e6:
                    finite = False
    for d in D.values():
        if bool(torch.isfinite(d).all()) and float(d.abs().max()) > 1e6:
            finite = False
    if plan.get('factor_dtype') == 'float16' and finite:
        for rec in by_rank.values():
            if not R.fp16_range_ok(plan['world'], rec.get('caps', {})):
                finite = False
                rep.stats['vacuous_float16_range'] += 1
                break
    if getattr(ref, 'diverged', False):
        finite = False
    if not finite:
        ref.diverged = True
        rep.stats['vacuous_nonfinite_input'] += 1
        # the reference cannot (and need not) follow a diverged run
        ref.steps += 1
        if unint is not None:
            unint.steps += 1
            unint.diverged = True
        return
    factor_step = ref.is_factor_step()
    inv_step = ref.is_inv_step()
    moments = _moments(infos, by_rank) if factor_step else None
    have_snap = all(ref.snap[n] is not None for n in infos) or inv_step
    if not have_snap or not infos:
        # nothing registered, or the generator produced an unresumable plan
        if moments is not None:
            ref.update_factors(moments)
        ref.steps += 1
        if unint is not None:
            unint.steps += 1
        rep.stats['train_ops_without_layers'] += 1
        return
    try:
        info = ref.step(moments, D)
        uinfo = None
        if unint is not None:
            uinfo = unint.step(moments, D)
    except torch.linalg.LinAlgError:
        # ill-posed reference system (a diverging run): vacuous from here on
        ref.diverged = True
        ref.steps = s + 1
        if unint is not None:
            unint.diverged = True
            unint.steps = s + 1
        rep.stats['vacuous_reference_failed'] += 1
        return
    agree = uinfo is None or all(
        torch.equal(info['grads'][n], uinfo['grads'][n]) for n in infos)
    bound = R.C_SOLVE * eps * info['cond']
    dbound = R.C_DIFF * eps * info['cond']
    vac = bound > R.VACUOUS or not finite
    rep.stats['vacuous_by_conditioning'] += int(bound > R.VACUOUS)
    rep.stats['steps_refresh' if inv_step else 'steps_stale'] += 1
    rep.stats['steps_factor_update' if factor_step
              else 'steps_no_factor_update'] += 1
    rep.stats['nu_lt_1' if info['nu'] < 1 else 'nu_eq_1'] += 1
    if not vac:
        rep.nontrivial_keys.add((
            plan['method'], plan['prediv'], world,
            str(plan['placement']['gwf']), inv_step, factor_step,
            info['nu'] < 1, len(infos), plan['hook'], plan['acc']))
    # ---------------- per rank comparisons
    ref_norm = {n: float(info['grads'][n].norm()) for n in infos}
    for r in sorted(by_rank):
        rec = by_rank[r]
        if 'G_after' not in rec:
            continue
        got = rec['G_after']
        if not vac:
            for n in infos:
                e = R.rel_err(got[n], info['grads'][n])
                rep.stats['grad_comparisons'] += 1
                if e > bound and not (
                        ref_norm[n] == 0.0 and float(got[n].norm()) == 0.0):
                    # after a restart this is clause (ii) of C09 as well:
                    # the resumed run must equal the restarted reference
                    rep.bad('C09.resume_vs_reference' if unint is not None
                            else 'C05.history_grad',
                            props=['C05', 'C09'] if unint is not None
                            else ['C05'], rank=r, layer=n, err=e,
                            bound=bound, key=key, step=s, nu=info['nu'],
                            inv_step=inv_step, factor_step=factor_step)
        # ---- decomposition probes
        dec = rec.get('decomps', 0)
        if not inv_step and dec:
            rep.bad('C05.decomp_on_nonrefresh', rank=r, count=dec, step=s)
        if inv_step and dec and r in asg and asg[r] and world > 1:
            mine = any(w == r for a in asg[r].values()
                       for w in a['inv'].values())
            if not mine:
                rep.bad('C13.decomp_on_non_inverse_worker', rank=r, step=s)
        rep.stats['decompositions'] += dec
        # ---- factors (C04) and the C01 solve with the layer's own factors
        facs = rec.get('factors')
        if facs is not None and not finite:
            facs = None
        if facs is not None:
            _factor_checks(rep, plan, ref, facs, r, infos, eps_f,
                           want_fdtype, factor_step, prev_factors, key)
            prev_factors[r] = facs
            if inv_step:
                impl_snap[r] = (facs, info['damping'])
        else:
            prev_factors.pop(r, None)
            if inv_step:
                impl_snap.pop(r, None)
        V = info['V']
        nu_ref = info['nu']
        if r in impl_snap and not vac:
            fs, d_snap = impl_snap[r]
            d = info['damping'] if (
                plan['method'] == 'eigen' and not plan['prediv']) else d_snap
            Vi, vds, worst = {}, [], 1.0
            for n in infos:
                v, c = R.solve(plan['method'], fs[n]['A'], fs[n]['G'], d,
                               D[n])
                Vi[n] = v
                worst = max(worst, c)
                vds.append(float((v * D[n]).sum()))
            nu_i = R.clip_scale(info['kl'], info['lr'], vds)
            b1 = R.C_SOLVE * eps * worst
            if b1 <= R.VACUOUS:
                for n in infos:
                    e = R.rel_err(got[n], nu_i * Vi[n])
                    rep.stats['c01_solves_checked'] += 1
                    if e > b1 and float(Vi[n].norm()) > 0:
                        rep.bad('C01.solve', rank=r, layer=n, err=e,
                                bound=b1, key=key, step=s,
                                method=plan['method'],
                                prediv=plan['prediv'])
                V, nu_ref = Vi, nu_i
        if not vac:
            _clip_checks(rep, plan, info, V, nu_ref, got, D, r, bound, key)
        # ---- traffic (C13)
        if world > 1 and r in asg and asg[r] and not emulate_of(plan):
            _traffic_check(rep, plan, rec, D, asg, r, factor_step, inv_step,
                           key)
    # ---------------- cross-rank equality (C02)
    # compared per registered layer (combined weight|bias gradient, error
    # relative to the layer's norm); gradients K-FAC must not touch are
    # covered by C10 and identical by construction of the workload.
    if not vac:
        base = by_rank[r0].get('G_after')
        for r in sorted(by_rank):
            g = by_rank[r].get('G_after')
            if g is None or base is None or r == r0:
                continue
            for n in base:
                e = R.rel_err(g[n], base[n])
                rep.stats['cross_rank_comparisons'] += 1
                if e > dbound:
                    rep.bad('C02.cross_rank', rank=r, layer=n, err=e,
                            bound=dbound, key=key)
    rep.per_op.append({
        'key': key, 'eff_pos': eff_pos, 'it': op['it'],
        'grads': by_rank[r0].get('G_after'), 'cond': info['cond'],
        'vacuous': vac, 'agree_unint': agree, 'step': s,
        'after_restart': unint is not None,
        'weights': by_rank[r0].get('weights_after'),
    })


def emulate_of(plan: dict[str, Any]) -> Any:
    return plan.get('emulate_world')


def _factor_checks(rep: Report, plan: dict[str, Any], ref: R.RefKFAC,
                   facs: dict[str, Any], r: int, infos: dict[str, Any],
                   eps_f: float, want_fdtype: str, factor_step: bool,
                   prev_factors: dict[int, Any], key: tuple) -> None:
    tol = R.C_FACTOR * eps_f * max(1.0, ref.n_updates) ** 0.5
    for n in infos:
        for f, want in (('A', ref.A[n]), ('G', ref.G[n])):
            got = facs.get(n, {}).get(f)
            if got is None or want is None:
                if (got is None) != (want is None):
                    rep.bad('C04.factor_missing', rank=r, layer=n, factor=f,
                            key=key)
                continue
            rep.stats['factor_comparisons'] += 1
            if str(got.dtype).replace('torch.', '') != want_fdtype:
                rep.bad('C04.factor_dtype', rank=r, layer=n, factor=f,
                        got=str(got.dtype), want=want_fdtype)
            e = R.rel_err(got, want)
            if want_fdtype == 'float16' and e > tol and bool(
                    torch.isfinite(got).all()):
                # below 2^-14 float16 is subnormal (absolute, not relative,
                # precision) and below 2^-24 it is zero: squares of small
                # output gradients legitimately underflow. Measure against
                # a floor of one smallest-normal per row instead.
                floor = got.shape[0] * 2.0 ** -14
                e = min(e, float((got.to(R.F64) - want).norm()) / max(
                    float(want.norm()), floor))
                if e <= tol:
                    rep.stats['float16_underflow_floor_used'] += 1
            if e > tol:
                rep.bad('C04.recurrence', rank=r, layer=n, factor=f, err=e,
                        tol=tol, key=key, updates=ref.n_updates)
            if not bool(torch.isfinite(got).all()):
                continue
            if not torch.equal(got, got.t()):
                rep.bad('C04.not_symmetric', rank=r, layer=n, factor=f,
                        asym=float((got - got.t()).abs().max()))
            g64 = got.to(R.F64)
            lo = float(torch.linalg.eigvalsh((g64 + g64.t()) / 2).min())
            if lo < -8 * eps_f * float(g64.norm()) * got.shape[0]:
                rep.bad('C04.not_psd', rank=r, layer=n, factor=f,
                        min_eig=lo)
            if not factor_step and r in prev_factors:
                p = prev_factors[r].get(n, {}).get(f)
                if p is not None and not torch.equal(p, got):
                    rep.bad('C04.changed_on_non_update_step', rank=r,
                            layer=n, factor=f, key=key)
                rep.stats['factor_unchanged_checks'] += 1


def _clip_checks(rep: Report, plan: dict[str, Any], info: dict[str, Any],
                 V: dict[str, torch.Tensor], nu_ref: float,
                 got: dict[str, torch.Tensor], D: dict[str, torch.Tensor],
                 r: int, bound: float, key: tuple) -> None:
    num = sum(float((got[n].to(R.F64) * V[n]).sum()) for n in V)
    den = sum(float((V[n] * V[n]).sum()) for n in V)
    if den == 0.0:
        if any(float(got[n].norm()) != 0.0 for n in V):
            rep.bad('C07.zero_inner_product', rank=r, key=key)
        rep.stats['clip_zero_inner'] += 1
        return
    nu_got = num / den
    rep.stats['clip_checks'] += 1
    if nu_got <= 0:
        rep.bad('C07.not_positive_multiple', rank=r, nu=nu_got, key=key)
        return
    resid = sum(float((got[n].to(R.F64) - nu_got * V[n]).norm()) ** 2
                for n in V) ** 0.5
    if resid > bound * nu_got * den ** 0.5:
        rep.bad('C07.not_a_multiple', rank=r, resid=resid, key=key,
                nu=nu_got)
    kl, lr = info['kl'], info['lr']
    S = abs(sum(float((V[n] * D[n].to(R.F64)).sum()) for n in V))
    if kl is None:
        if abs(nu_got - 1.0) > bound:
            rep.bad('C07.none_rescaled', rank=r, nu=nu_got, key=key)
        rep.stats['clip_none'] += 1
        return
    if abs(nu_got - nu_ref) > 2 * bound * max(nu_ref, 1e-300):
        rep.bad('C07.nu_formula', rank=r, got=nu_got, want=nu_ref, key=key,
                kl=kl, lr=lr)
    if nu_got > 1 + 2 * bound:
        rep.bad('C07.nu_above_one', rank=r, nu=nu_got, key=key)
    if nu_got ** 2 * lr ** 2 * S > kl * (1 + 6 * bound):
        rep.bad('C07.kl_bound', rank=r, lhs=nu_got ** 2 * lr ** 2 * S,
                kl=kl, key=key)


def _traffic_check(rep: Report, plan: dict[str, Any], rec: dict[str, Any],
                   D: dict[str, torch.Tensor], asg: dict[int, Any], r: int,
                   factor_step: bool, inv_step: bool, key: tuple) -> None:
    if 'traffic' not in rec or len(asg) != plan['world']:
        return
    dims = {n: (int(d.shape[1]), int(d.shape[0])) for n, d in D.items()}
    want_ar, want_bc = expected_traffic(plan, dims, asg, r, factor_step,
                                        inv_step)
    got_ar = 0
    got_bc: Counter = Counter()
    world_members = tuple(range(plan['world']))
    for e in rec['traffic']:
        kind, _, _, members, _, _, numel = e[:7]
        if kind == 'all_reduce':
            if tuple(members) != world_members:
                rep.bad('C13.factor_allreduce_not_world', rank=r,
                        group=list(members), key=key)
            got_ar += numel
        elif kind == 'broadcast':
            got_bc[(tuple(members), numel)] += 1
        else:
            rep.bad('C13.unexpected_collective', rank=r, kind=kind, key=key)
    rep.stats['traffic_checks'] += 1
    if got_ar != want_ar:
        rep.bad('C13.allreduce_elements', rank=r, got=got_ar, want=want_ar,
                key=key, factor_step=factor_step)
    # compared as element totals per group: how the payload is cut into
    # messages is not part of the property (a fused broadcast is fine)
    got_bc = _totals(got_bc)
    want_bc = _totals(want_bc)
    if got_bc != want_bc:
        rep.bad('C13.broadcast_traffic', rank=r,
                got=sorted((list(k[0]), k[1], v)
                           for k, v in got_bc.items()),
                want=sorted((list(k[0]), k[1], v)
                            for k, v in want_bc.items()),
                key=key, inv_step=inv_step)
    if got_bc:
        rep.stats['steps_with_broadcasts'] += 1


def _sched_op(rep: Report, plan: dict[str, Any], ref: R.RefKFAC,
              by_rank: dict[int, Any], op: dict[str, Any]) -> None:
    if not plan.get('scheduler'):
        return
    at = ref.steps if op.get('step') is None else op['step']
    ref.sched_step(plan['scheduler'], op.get('step'))
    for r, rec in by_rank.items():
        if 'hp_values' not in rec:
            continue
        rep.stats['sched_steps_checked'] += 1
        for name, v in rec['hp_values'].items():
            want = ref.hps[name]['c']
            if v != want or type(v) is not type(want):
                rep.bad('C19.value', rank=r, name=name, got=v, want=want,
                        scheduled=name in plan['scheduler'])
        for name, calls in rec['lambda_calls'].items():
            if calls != [at]:
                rep.bad('C19.lambda_arg', rank=r, name=name, calls=calls,
                        want=at)


# ---------------------------------------------------------------------------
# cross-run comparison (C02 placements, single process, C09 uninterrupted)
# ---------------------------------------------------------------------------


def compare_runs(rep: Report, a: Report, b: Report, clause: str,
                 eps: float, only_agree: bool = False) -> int:
    """Compare rank-0 gradients of two runs train-op by train-op."""
    n = 0
    # align on effective position: the last occurrence wins
    pa = {p['eff_pos']: p for p in a.per_op}
    pb = {p['eff_pos']: p for p in b.per_op}
    for pos in sorted(set(pa) & set(pb)):
        x, y = pa[pos], pb[pos]
        if x['it'] != y['it'] or x['vacuous'] or y['vacuous']:
            continue
        if only_agree and not x['agree_unint']:
            rep.stats['resume_outside_precondition'] += 1
            continue
        if x['grads'] is None or y['grads'] is None:
            continue
        bound = R.C_DIFF * eps * max(x['cond'], y['cond'])
        for pn in x['grads']:
            gx, gy = x['grads'][pn], y['grads'].get(pn)
            if gx is None or gy is None:
                continue
            e = R.rel_err(gx, gy)
            n += 1
            if e > bound:
                rep.bad(clause, param=pn, err=e, bound=bound, pos=pos,
                        it=x['it'])
    return n
