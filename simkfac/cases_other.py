"""Cases that do not use the W-train workload."""

from __future__ import annotations

import copy
import random
from typing import Any, Callable

from simkfac.cases import ASSUME_TRAIN, BaseCase, _set
from simkfac.runner import Outcome

COMPONENTS_COMM = {
    'real': ['kfac/distributed.py (TorchDistributedCommunicator, '
             'AllreduceTensorBucket, get_triu, fill_triu)',
             'torch._utils flatten/unflatten'],
    'stub': ['torch.distributed (SimDist)', 'torch.futures.Future '
             '(SimFuture)'],
}


def _absorb_comm(oc: Outcome, res: dict[str, Any]) -> None:
    oc.absorb_result({'incs': [res]})


def _drop_sub(p: dict[str, Any]) -> None:
    p['sub'] = None
    for c in p.get('calls', []):
        if c.get('group') == 'sub':
            c['group'] = 'world'


class CommCase(BaseCase):
    ops_key = 'calls'
    components = COMPONENTS_COMM
    assumptions = ASSUME_TRAIN[:2] + [
        'tensor contents are integer valued so every expected result is '
        'exact in the tensor dtype']
    n_cases = {'quick': 2500, 'thorough': 50000}
    chunk = {'quick': 25, 'thorough': 100}

    def legal(self, plan: dict[str, Any]) -> bool:
        if plan.get('kind') != 'comm':
            return True
        return any(c['kind'] != 'flush' for c in plan['calls'])

    def shrinkers(self) -> list[Callable[[dict[str, Any]], bool]]:
        def world2(p: dict[str, Any]) -> bool:
            if p.get('kind') != 'comm' or p['world'] <= 2:
                return False
            p['world'], p['rows'] = 2, 1
            _drop_sub(p)
            return True

        def world4(p: dict[str, Any]) -> bool:
            if p.get('kind') != 'comm' or p['world'] <= 4:
                return False
            p['world'], p['rows'] = 4, 2
            if p.get('sub'):
                p['sub'] = sorted({r % 4 for r in p['sub']})
                if len(p['sub']) < 2 or len(p['sub']) == 4:
                    _drop_sub(p)
            return True

        def small_shapes(p: dict[str, Any]) -> bool:
            ch = False
            for c in p.get('calls', []):
                if c['kind'] != 'flush' and any(s > 3 for s in c['shape']):
                    c['shape'] = [min(s, 3) for s in c['shape']]
                    ch = True
            return ch

        def f32(p: dict[str, Any]) -> bool:
            ch = False
            for c in p.get('calls', []):
                if c['kind'] != 'flush' and c['dtype'] != 'float32':
                    c['dtype'] = 'float32'
                    ch = True
            return ch

        return [world4, world2, small_shapes, f32,
                _set(['sim', 'poison'], False),
                _set(['sim', 'policy'], 'round_robin')]

    def brief(self, plan: dict[str, Any]) -> Any:
        return plan


class C08(CommCase):
    pid = 'C08'
    expected_probes = ['values_checked', 'differential_comparisons',
                       'multi_tensor_buckets',
                       'oversized_single_tensor_bucket', 'inflight_poison']
    rule = ('random sequences of allreduce / broadcast / allreduce_bucketed '
            '/ flush calls on world, row, column and singleton groups of a '
            'random grid with a random capacity; executed as planned and '
            'again with every bucketed call replaced by a plain allreduce; '
            'both compared with each other and with exactly computed '
            'integer results; per-group element accounting and bucket '
            'partition check on the transport log; distinct = distinct '
            'per-group collective sequence shapes')

    def gen(self, rng: random.Random, tier: str) -> dict[str, Any]:
        from simkfac import comm

        return comm.gen_comm_plan(rng, tier=tier, symmetric_only=False,
                                  mixed_dtypes=rng.random() < 0.25)

    def evaluate_all(self, plan: dict[str, Any], tapes: Any = None) -> Outcome:
        from simkfac import comm

        oc = Outcome()
        tapes = tapes or {}

        def bad(clause: str, **d: Any) -> None:
            props = d.pop('props', None) or [clause.split('.')[0]]
            oc.violations.append({'clause': clause, 'props': props, **d})

        a = comm.execute(plan, 'as_planned', tapes.get('A'))
        _absorb_comm(oc, a)
        comm.check(plan, a, 'as_planned', bad, oc.stats)
        b = comm.execute(plan, 'plain', tapes.get('B'))
        _absorb_comm(oc, b)
        comm.check(plan, b, 'plain', bad, oc.stats)
        comm.compare_modes(plan, a, b, 'C08.bucketed_vs_plain', ['C08'],
                           bad, oc.stats)
        oc.tapes = {'A': a['decisions'], 'B': b['decisions']}
        oc.nontrivial = list(oc.shapes)
        return oc

    def evaluate(self, plan: dict[str, Any], tapes: Any = None) -> Outcome:
        oc = self.evaluate_all(plan, tapes)
        oc.violations = [v for v in oc.violations if self.pid in v['props']]
        return oc


class C14(CommCase):
    pid = 'C14'
    expected_probes = ['values_checked', 'differential_comparisons',
                       'nonsquare_rejections', 'triu_roundtrips']
    rule = ('symmetric allreduce / broadcast / allreduce_bucketed with '
            'position-revealing symmetric integer matrices, executed with '
            'symmetric=True and again dense; results identical, transport '
            'carried n(n+1)/2 elements, non-square / non-2-D rejected '
            'without traffic; plus an enumerated sweep of '
            'fill_triu(get_triu(x)) == x over n and dtypes (labelled '
            'enumeration, not simulation)')

    def fixed_plans(self, tier: str) -> list[dict[str, Any]]:
        hi = 96 if tier == 'quick' else 384
        step = 12 if tier == 'quick' else 24
        return [{'kind': 'triu_sweep', 'lo': lo, 'hi': min(hi, lo + step),
                 'dtype': dt}
                for dt in ('float32', 'float64', 'float16', 'bfloat16')
                for lo in range(1, hi + 1, step)]

    def gen(self, rng: random.Random, tier: str) -> dict[str, Any]:
        from simkfac import comm

        return comm.gen_comm_plan(rng, tier=tier, symmetric_only=True)

    def evaluate(self, plan: dict[str, Any], tapes: Any = None) -> Outcome:
        from simkfac import comm

        oc = Outcome()
        tapes = tapes or {}

        def bad(clause: str, **d: Any) -> None:
            props = d.pop('props', None) or [clause.split('.')[0]]
            oc.violations.append({'clause': clause, 'props': props, **d})

        if plan['kind'] == 'triu_sweep':
            _triu_sweep(plan, bad, oc)
            return oc
        a = comm.execute(plan, 'as_planned', tapes.get('A'))
        _absorb_comm(oc, a)
        comm.check(plan, a, 'as_planned', bad, oc.stats)
        b = comm.execute(plan, 'dense', tapes.get('B'))
        _absorb_comm(oc, b)
        comm.check(plan, b, 'dense', bad, oc.stats)
        comm.compare_modes(plan, a, b, 'C14.symmetric_vs_dense', ['C14'],
                           bad, oc.stats)
        oc.violations = [v for v in oc.violations if self.pid in v['props']]
        oc.tapes = {'A': a['decisions'], 'B': b['decisions']}
        oc.nontrivial = list(oc.shapes)
        return oc


def _triu_sweep(plan: dict[str, Any], bad: Any, oc: Outcome) -> None:
    """Enumeration: pack/unpack is the identity; 2-rank symmetric traffic."""
    import torch
    import kfac.distributed as kd

    from simkfac import comm
    from simkfac.models import DTYPES

    dt = DTYPES[plan['dtype']]
    for n in range(plan['lo'], plan['hi'] + 1):
        call = {'shape': [n, n], 'dtype': plan['dtype'],
                'symmetric_data': True, 'noncontig': False}
        for nc in (False, True):
            call['noncontig'] = nc
            x = comm.make_tensor(call, n, 1)
            packed = kd.get_triu(x)
            y = kd.fill_triu(tuple(x.shape), packed)
            oc.stats['triu_roundtrips'] += 1
            if packed.numel() != n * (n + 1) // 2:
                bad('C14.packed_size', n=n, got=packed.numel())
            if y.dtype != dt or tuple(y.shape) != (n, n) or \
                    not torch.equal(y, x):
                bad('C14.roundtrip', n=n, dtype=plan['dtype'], noncontig=nc)
        oc.nontrivial.append(f'triu:{plan["dtype"]}:{n}')
    # the same sizes through a real send/receive on two simulated ranks
    sizes = list(range(plan['lo'], plan['hi'] + 1))
    calls = []
    for n in sizes[:: max(1, len(sizes) // 4)]:
        for kind in ('allreduce', 'broadcast', 'allreduce_bucketed'):
            calls.append({'kind': kind, 'group': 'world', 'shape': [n, n],
                          'dtype': plan['dtype'], 'symmetric': True,
                          'symmetric_data': True, 'average': False,
                          'src_pos': 1, 'noncontig': False})
    p2 = {'kind': 'comm', 'world': 2, 'rows': 1, 'sub': None,
          'group_order': ['row', 'col', 'self'], 'cap_mb': 0.001,
          'calls': calls,
          'sim': {'policy': 'lazy', 'poison': True, 'latency': 0.0,
                  'sched_seed': plan['lo']}}
    a = comm.execute(p2, 'as_planned')
    _absorb_comm(oc, a)
    comm.check(p2, a, 'as_planned', bad, oc.stats)
    b = comm.execute(p2, 'dense')
    _absorb_comm(oc, b)
    comm.compare_modes(p2, a, b, 'C14.symmetric_vs_dense', ['C14'], bad,
                       oc.stats)
    oc.violations = [v for v in oc.violations if 'C14' in v['props']]


COMPONENTS_ASSIGN = {
    'real': ['kfac/assignment.py (KAISAAssignment)',
             'kfac/gpt_neox/assignment.py (GPTNeoXAssignment), '
             'kfac/gpt_neox/mpu.py (get_group_with_rank)'],
    'stub': ['torch.distributed.new_group (recorder returning the member '
             'tuple)', 'deepspeed PipeModelDataParallelTopology '
             '(re-implemented row-major pipe,data,model mapping)'],
}


class AssignCase(BaseCase):
    ops_key = None
    components = COMPONENTS_ASSIGN
    n_cases = {'quick': 600, 'thorough': 6000}
    chunk = {'quick': 30, 'thorough': 100}
    assumptions = [
        'construction involves no communication, so no schedule is '
        'explored: the simulation contributes the N-rank instantiation and '
        'the new_group order check (stated candidly in DESIGN 5/C06, C12)',
    ]
    checker_name = ''

    def evaluate(self, plan: dict[str, Any], tapes: Any = None) -> Outcome:
        from simkfac import assign

        oc = Outcome()

        def bad(clause: str, **d: Any) -> None:
            props = d.pop('props', None) or [clause.split('.')[0]]
            oc.violations.append({'clause': clause, 'props': props, **d})

        fn = {'kaisa': assign.check_kaisa,
              'kaisa_fractions': assign.check_fractions,
              'hashseed': assign.check_hashseed,
              'neox_assign': assign.check_neox_assignment}[plan['kind']]
        fn(plan, bad, oc.stats)
        oc.n_sims = 1
        oc.violations = [v for v in oc.violations if self.pid in v['props']]
        if plan['kind'] == 'kaisa':
            oc.nontrivial = [f'{plan["world"]}/{plan["k"]}/'
                             f'{plan["colocate"]}/{len(plan["work"])}']
        elif plan['kind'] == 'neox_assign':
            oc.nontrivial = [f'{plan["pipe"]}x{plan["data"]}x'
                             f'{plan["model"]}/'
                             f'{sorted(len(w) for w in plan["work"].values())}']
        return oc

    def brief(self, plan: dict[str, Any]) -> Any:
        return plan


class C06(AssignCase):
    pid = 'C06'
    expected_probes = ['assignments_built', 'layer_rank_checks',
                       'fractions_tried', 'hashseed_comparisons']
    rule = ('every rank of a world builds its own KAISAAssignment through '
            'the real constructor with a recording group_func; relations of '
            'the statement checked through public query methods and '
            'cross-rank; enumerated: every world <= 64 (thorough 256) x '
            'divisor x colocate with seeded costs, and acceptance of every '
            'k/W for W <= 1024 (thorough 3072); seeded: random worlds, '
            'costs with ties/zeros, 1-3 factors; distinct = distinct '
            '(world, k, colocate, #layers)')

    def fixed_plans(self, tier: str) -> list[dict[str, Any]]:
        from simkfac import assign

        return assign.kaisa_enum(tier) + assign.hashseed_plans('kaisa')

    def gen(self, rng: random.Random, tier: str) -> dict[str, Any]:
        from simkfac import assign, gen

        if rng.random() < 0.12:
            # the assignment as a running job really gets it: built by
            # KFACPreconditioner on every simulated rank under a launcher
            # environment (ranks per node), one training step
            plan = gen.gen_train_plan(rng, tier=tier, min_world=2,
                                      restarts=0.0, extras=0.0, max_ops=4,
                                      scheduler=0.0)
            plan['sim']['local_size'] = rng.choice([1, 2, 2, 4])
            return plan
        return assign.gen_kaisa(rng, tier)

    def evaluate(self, plan: dict[str, Any], tapes: Any = None) -> Outcome:
        if plan['kind'] != 'train':
            return super().evaluate(plan, tapes)
        from simkfac import cases

        tc = cases.C03()
        oc = Outcome()
        res, rep, tp = tc.run_and_analyse(plan, oc, tapes)
        oc.tapes = tp
        oc.violations = rep.for_prop('C06')
        oc.nontrivial = [f'train/{plan["world"]}/{plan["placement"]["k"]}/'
                         f'{plan["sim"].get("local_size")}']
        return oc


class C12(AssignCase):
    pid = 'C12'
    expected_probes = ['assignments_built', 'layer_rank_checks',
                       'hashseed_comparisons']
    rule = ('every rank of a pipe x data x model topology builds its own '
            'GPTNeoXAssignment; agreement inside stages, membership '
            'relations of factor worker / gradient source / gradient '
            'workers, an independent least-loaded greedy, and equality of '
            'the new_group call sequence across all ranks; enumerated: all '
            'topologies with pipe<=4, data<=6, model<=4 and world <= 32 '
            '(thorough 64), plus seeded costs; distinct = distinct '
            '(topology, layer counts)')

    def fixed_plans(self, tier: str) -> list[dict[str, Any]]:
        from simkfac import assign

        return assign.neox_enum(tier) + assign.hashseed_plans('neox')

    def gen(self, rng: random.Random, tier: str) -> dict[str, Any]:
        from simkfac import assign, neox

        if rng.random() < 0.12:
            # the assignment as a running job gets it: built by
            # GPTNeoXKFACPreconditioner on every simulated rank under a
            # launcher environment, one training step
            plan = neox.gen_neox_plan(rng, tier, restarts=0.0)
            plan['ops'] = [o for o in plan['ops'] if o['op'] == 'train'][:1]
            plan['sim']['local_size'] = rng.choice([1, 2, 2, 4])
            return plan
        return assign.gen_neox_assignment(rng, tier)

    def evaluate(self, plan: dict[str, Any], tapes: Any = None) -> Outcome:
        if plan['kind'] != 'neox':
            return super().evaluate(plan, tapes)
        oc = C11().evaluate_all(plan, tapes)
        oc.violations = [v for v in oc.violations if 'C12' in v['props']]
        oc.nontrivial = [f'job/{plan["pipe"]}x{plan["data"]}x{plan["model"]}'
                         f'/{plan["sim"].get("local_size")}']
        return oc


class C20(BaseCase):
    pid = 'C20'
    ops_key = 'ops'
    n_cases = {'quick': 2500, 'thorough': 60000}
    chunk = {'quick': 50, 'thorough': 250}
    expected_probes = ['calls', 'queries', 'windowed_queries', 'clears',
                       'raising_calls', 'sync_calls', 'clock_step',
                       'clock_skew_change']
    components = {
        'real': ['kfac/tracing.py (trace, get_trace, clear_trace)'],
        'stub': ['time.time (simulated clock with steps and per-rank skew)',
                 'torch.distributed.barrier (SimDist)'],
    }
    assumptions = [
        'in simulation all ranks share the process-global trace table; the '
        'reference models that table, updated at the same instants',
        'max_history >= 1 (the mean of zero samples is undefined; see '
        'DESIGN section 7 item 9)',
    ]
    rule = ('SPMD programs of calls to 1-4 traced functions (shared names, '
            'raising calls, args/kwargs with identity, sync barriers on '
            'multi-rank worlds) interleaved with get_trace(average, '
            'max_history) and clear_trace under a simulated clock with '
            'forward/backward steps and skew changes; statistics compared '
            'for equality with a reference table built from the clock\'s '
            'own readings; distinct = distinct event digests')

    def gen(self, rng: random.Random, tier: str) -> dict[str, Any]:
        from simkfac import tracew

        return tracew.gen_trace_plan(rng, tier)

    def legal(self, plan: dict[str, Any]) -> bool:
        return any(o['op'] == 'get' for o in plan['ops'])

    def evaluate(self, plan: dict[str, Any], tapes: Any = None) -> Outcome:
        from simkfac import tracew

        oc = Outcome()
        res = tracew.execute(plan, tapes)
        _absorb_comm(oc, res)
        oc.stats.update(res['stats'])
        oc.tapes = res['decisions']
        v = list(res['local'])
        if res['status'] == 'deadlock':
            v.append({'clause': 'C20.deadlock', 'props': ['C20', 'C03'],
                      'info': res['deadlock']})
        for r, e in res['rank_errors'].items():
            v.append({'clause': 'C20.rank_exception', 'props': ['C20'],
                      'rank': r, 'error': e['error'],
                      'tb': e['tb'][-1200:]})
        for x in res['violations']:
            v.append({'clause': 'C20.transport_' + x['clause'],
                      'props': ['C20', 'C03'],
                      **{k: y for k, y in x.items() if k != 'clause'}})
        if res['status'] == 'ok' and res['pending']:
            v.append({'clause': 'C20.pending_barrier', 'props': ['C20'],
                      'pending': res['pending'][:4]})
        oc.violations = v
        oc.nontrivial = [res['event_digest'] + str(len(plan['ops']))]
        oc.value_digests = [repr(res['clock_log'][-3:])]
        return oc

    def shrinkers(self) -> list[Callable[[dict[str, Any]], bool]]:
        def world1(p: dict[str, Any]) -> bool:
            if p['world'] == 1:
                return False
            p['world'] = 1
            p['clock']['skew'] = p['clock']['skew'][:1]
            for j in p['clock']['skew_jumps']:
                j['rank'] = 0
            return True

        def nojumps(p: dict[str, Any]) -> bool:
            if not p['clock']['jumps'] and not p['clock']['skew_jumps']:
                return False
            p['clock']['jumps'] = []
            p['clock']['skew_jumps'] = []
            return True

        return [world1, nojumps, _set(['clock', 'base'], 0.0),
                _set(['clock', 'read_cost'], 0.0)]


COMPONENTS_NEOX = {
    'real': ['kfac/gpt_neox/* (preconditioner, layer, assignment, mpu, '
             'modules)', 'kfac/base_preconditioner.py, kfac/layers/eigen.py, '
             'kfac/distributed.py', 'torch autograd and linear algebra',
             'torch.save/torch.load serialization'],
    'stub': ['torch.distributed / torch.futures.Future (SimDist, SimFuture)',
             'deepspeed.pipe.PipelineModule and '
             'PipeModelDataParallelTopology (re-implemented)',
             'Megatron ColumnParallelLinear / RowParallelLinear (stub '
             'modules with the real sharded arithmetic, communicating '
             'through SimDist from autograd functions)',
             'pipeline engine (each stage trains on stage-local synthetic '
             'activations; inter-stage p2p not simulated)',
             'file system under factor_checkpoint_dir (in-memory, snapshot '
             'per committed checkpoint)', 'optimizer (seeded weight '
             'schedule keeps sharded/unsharded runs in lock-step)'],
}


class NeoxCase(BaseCase):
    components = COMPONENTS_NEOX
    assumptions = ASSUME_TRAIN + [
        'C11/C18 are statements about kfac given the DeepSpeed/Megatron '
        'stubs', 'a checkpoint counts as complete only after every rank '
        'returned from state_dict() (outer-framework barrier)']
    n_cases = {'quick': 260, 'thorough': 4000}
    chunk = {'quick': 5, 'thorough': 20}
    restarts = 0.0

    def gen(self, rng: random.Random, tier: str) -> dict[str, Any]:
        from simkfac import neox

        return neox.gen_neox_plan(rng, tier, restarts=self.restarts)

    def legal(self, plan: dict[str, Any]) -> bool:
        ops = plan['ops']
        return any(o['op'] == 'train' for o in ops) and \
            ops[-1]['op'] != 'restart' and \
            plan['hidden'] % plan['model'] == 0 and \
            plan['inner'] % plan['model'] == 0

    def brief(self, plan: dict[str, Any]) -> Any:
        return {k: v for k, v in plan.items()
                if k not in ('model_seed', 'data_seed')}

    def shrinkers(self) -> list[Callable[[dict[str, Any]], bool]]:
        def dec(key: str, lo: int) -> Callable[[dict[str, Any]], bool]:
            def f(p: dict[str, Any]) -> bool:
                if p[key] <= lo:
                    return False
                p[key] = lo
                return True
            return f

        def small_dims(p: dict[str, Any]) -> bool:
            h = p['model'] if p['model'] > 1 else 2
            if p['hidden'] == h and p['inner'] == h:
                return False
            p['hidden'] = p['inner'] = h
            return True

        from simkfac.cases import _const_hp

        return [dec('pipe', 1), dec('data', 1), dec('blocks', 1), small_dims,
                dec('acc', 1),
                _set(['kfac', 'bucket_cap_mb'], 0),
                _set(['kfac', 'symmetry_aware'], False),
                _set(['kfac', 'ckpt_dir'], None),
                _set(['sim', 'poison'], False),
                _set(['sim', 'policy'], 'round_robin'),
                _set(['read_factors'], False),
                ] + [_const_hp(n) for n in (
                    'factor_update_steps', 'inv_update_steps', 'damping',
                    'factor_decay', 'kl_clip', 'lr')]

    def run_and_analyse(self, plan: dict[str, Any], oc: Outcome,
                        tapes: Any = None) -> Any:
        from simkfac import neox, oracle_neox

        res = neox.execute(plan, tapes)
        oc.absorb_result(res)
        rep = oracle_neox.analyse(plan, res)
        oc.stats.update(rep.stats)
        oc.harness_errors.extend(rep.harness_errors)
        oc.nontrivial.extend(repr(k) for k in sorted(
            rep.nontrivial_keys, key=repr))
        return res, rep, [inc['decisions'] for inc in res['incs']]

    def evaluate_all(self, plan: dict[str, Any],
                     tapes: Any = None) -> Outcome:
        oc = Outcome()
        res, rep, tp = self.run_and_analyse(plan, oc, tapes)
        oc.tapes = tp
        oc.violations = list(rep.violations)
        return oc

    def evaluate(self, plan: dict[str, Any], tapes: Any = None) -> Outcome:
        oc = self.evaluate_all(plan, tapes)
        oc.violations = [v for v in oc.violations if self.pid in v['props']]
        return oc


class C11(NeoxCase):
    pid = 'C11'
    expected_probes = ['neox_gradient_comparisons',
                       'neox_factor_comparisons', 'nu_lt_1', 'nu_eq_1',
                       'inflight_poison']
    rule = ('pipe x data x model topologies (world <= 8, thorough 16) of '
            'column-/row-parallel blocks with/without bias, clipping '
            'active/inactive/None, bucketed or not; shards of the gradient '
            'after every step are reassembled and compared with a float64 '
            'reference of the UNSHARDED layer fed the reassembled '
            'activations (factors via all-rank state_dict()); replicas and '
            'replicated parameters compared; distinct = distinct (topology, '
            'bias, clipped?, refresh?, factor-step?, bucketed) tuples')


class C18(NeoxCase):
    pid = 'C18'
    level = 'fault_enumeration'
    restarts = 0.9
    expected_probes = ['restarts', 'saves_checked',
                       'saved_factor_comparisons', 'checkpoint_saved',
                       'directory_checkpoints_checked',
                       'job_crash_and_restart']
    rule = ('W-neox histories with all-rank state_dict() checkpoints '
            '(in-memory and factor_checkpoint_dir on a simulated file '
            'system), crashes at boundaries and mid-operation, restart into '
            'fresh objects; at save every rank\'s state is compared with '
            'what each layer\'s inverse worker holds (and files with it); '
            'after restart gradients are compared with the restarted '
            'reference')

    def gen(self, rng: random.Random, tier: str) -> dict[str, Any]:
        while True:
            plan = super().gen(rng, tier)
            if any(o['op'] == 'save' for o in plan['ops']):
                break
        # the rank-local clip scale (known finding) is C11/C07 business;
        # keep most checkpoint histories free of it
        if (plan['model'] > 1 or plan['pipe'] > 1) and rng.random() < 0.8:
            plan['hps']['kl_clip'] = {'c': 1e6}
        return plan


def registry() -> dict[str, Any]:
    return {c.pid: c() for c in (C06, C08, C11, C12, C14, C18, C20)}
