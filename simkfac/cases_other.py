"""Cases that do not use the W-train workload."""

from __future__ import annotations

from typing import Any


def registry() -> dict[str, Any]:
    return {}
