"""Cases that do not use the W-train workload."""

from __future__ import annotations

import copy
import random
from typing import Any, Callable

from simkfac.cases import ASSUME_TRAIN, BaseCase, _set
from simkfac.runner import Outcome

COMPONENTS_COMM = {
    'real': ['kfac/distributed.py (TorchDistributedCommunicator, '
             'AllreduceTensorBucket, get_triu, fill_triu)',
             'torch._utils flatten/unflatten'],
    'stub': ['torch.distributed (SimDist)', 'torch.futures.Future '
             '(SimFuture)'],
}


def _absorb_comm(oc: Outcome, res: dict[str, Any]) -> None:
    oc.absorb_result({'incs': [res]})


class CommCase(BaseCase):
    ops_key = 'calls'
    components = COMPONENTS_COMM
    assumptions = ASSUME_TRAIN[:2] + [
        'tensor contents are integer valued so every expected result is '
        'exact in the tensor dtype']
    n_cases = {'quick': 1500, 'thorough': 40000}
    chunk = {'quick': 25, 'thorough': 100}

    def legal(self, plan: dict[str, Any]) -> bool:
        if plan.get('kind') != 'comm':
            return True
        return any(c['kind'] != 'flush' for c in plan['calls'])

    def shrinkers(self) -> list[Callable[[dict[str, Any]], bool]]:
        def world2(p: dict[str, Any]) -> bool:
            if p.get('kind') != 'comm' or p['world'] <= 2:
                return False
            p['world'], p['rows'] = 2, 1
            return True

        def world4(p: dict[str, Any]) -> bool:
            if p.get('kind') != 'comm' or p['world'] <= 4:
                return False
            p['world'], p['rows'] = 4, 2
            return True

        def small_shapes(p: dict[str, Any]) -> bool:
            ch = False
            for c in p.get('calls', []):
                if c['kind'] != 'flush' and any(s > 3 for s in c['shape']):
                    c['shape'] = [min(s, 3) for s in c['shape']]
                    ch = True
            return ch

        def f32(p: dict[str, Any]) -> bool:
            ch = False
            for c in p.get('calls', []):
                if c['kind'] != 'flush' and c['dtype'] != 'float32':
                    c['dtype'] = 'float32'
                    ch = True
            return ch

        return [world4, world2, small_shapes, f32,
                _set(['sim', 'poison'], False),
                _set(['sim', 'policy'], 'round_robin')]

    def brief(self, plan: dict[str, Any]) -> Any:
        return plan


class C08(CommCase):
    pid = 'C08'
    expected_probes = ['values_checked', 'differential_comparisons',
                       'multi_tensor_buckets',
                       'oversized_single_tensor_bucket', 'inflight_poison']
    rule = ('random sequences of allreduce / broadcast / allreduce_bucketed '
            '/ flush calls on world, row, column and singleton groups of a '
            'random grid with a random capacity; executed as planned and '
            'again with every bucketed call replaced by a plain allreduce; '
            'both compared with each other and with exactly computed '
            'integer results; per-group element accounting and bucket '
            'partition check on the transport log; distinct = distinct '
            'per-group collective sequence shapes')

    def gen(self, rng: random.Random, tier: str) -> dict[str, Any]:
        from simkfac import comm

        return comm.gen_comm_plan(rng, tier=tier, symmetric_only=False,
                                  mixed_dtypes=rng.random() < 0.25)

    def evaluate(self, plan: dict[str, Any], tapes: Any = None) -> Outcome:
        from simkfac import comm

        oc = Outcome()
        tapes = tapes or {}

        def bad(clause: str, **d: Any) -> None:
            props = d.pop('props', None) or [clause.split('.')[0]]
            oc.violations.append({'clause': clause, 'props': props, **d})

        a = comm.execute(plan, 'as_planned', tapes.get('A'))
        _absorb_comm(oc, a)
        comm.check(plan, a, 'as_planned', bad, oc.stats)
        b = comm.execute(plan, 'plain', tapes.get('B'))
        _absorb_comm(oc, b)
        comm.check(plan, b, 'plain', bad, oc.stats)
        comm.compare_modes(plan, a, b, 'C08.bucketed_vs_plain', ['C08'],
                           bad, oc.stats)
        oc.violations = [v for v in oc.violations if self.pid in v['props']]
        oc.tapes = {'A': a['decisions'], 'B': b['decisions']}
        oc.nontrivial = list(oc.shapes)
        return oc


class C14(CommCase):
    pid = 'C14'
    expected_probes = ['values_checked', 'differential_comparisons',
                       'nonsquare_rejections', 'triu_roundtrips']
    rule = ('symmetric allreduce / broadcast / allreduce_bucketed with '
            'position-revealing symmetric integer matrices, executed with '
            'symmetric=True and again dense; results identical, transport '
            'carried n(n+1)/2 elements, non-square / non-2-D rejected '
            'without traffic; plus an enumerated sweep of '
            'fill_triu(get_triu(x)) == x over n and dtypes (labelled '
            'enumeration, not simulation)')

    def fixed_plans(self, tier: str) -> list[dict[str, Any]]:
        hi = 96 if tier == 'quick' else 384
        step = 12 if tier == 'quick' else 24
        return [{'kind': 'triu_sweep', 'lo': lo, 'hi': min(hi, lo + step),
                 'dtype': dt}
                for dt in ('float32', 'float64', 'float16', 'bfloat16')
                for lo in range(1, hi + 1, step)]

    def gen(self, rng: random.Random, tier: str) -> dict[str, Any]:
        from simkfac import comm

        return comm.gen_comm_plan(rng, tier=tier, symmetric_only=True)

    def evaluate(self, plan: dict[str, Any], tapes: Any = None) -> Outcome:
        from simkfac import comm

        oc = Outcome()
        tapes = tapes or {}

        def bad(clause: str, **d: Any) -> None:
            props = d.pop('props', None) or [clause.split('.')[0]]
            oc.violations.append({'clause': clause, 'props': props, **d})

        if plan['kind'] == 'triu_sweep':
            _triu_sweep(plan, bad, oc)
            return oc
        a = comm.execute(plan, 'as_planned', tapes.get('A'))
        _absorb_comm(oc, a)
        comm.check(plan, a, 'as_planned', bad, oc.stats)
        b = comm.execute(plan, 'dense', tapes.get('B'))
        _absorb_comm(oc, b)
        comm.check(plan, b, 'dense', bad, oc.stats)
        comm.compare_modes(plan, a, b, 'C14.symmetric_vs_dense', ['C14'],
                           bad, oc.stats)
        oc.violations = [v for v in oc.violations if self.pid in v['props']]
        oc.tapes = {'A': a['decisions'], 'B': b['decisions']}
        oc.nontrivial = list(oc.shapes)
        return oc


def _triu_sweep(plan: dict[str, Any], bad: Any, oc: Outcome) -> None:
    """Enumeration: pack/unpack is the identity; 2-rank symmetric traffic."""
    import torch
    import kfac.distributed as kd

    from simkfac import comm
    from simkfac.models import DTYPES

    dt = DTYPES[plan['dtype']]
    for n in range(plan['lo'], plan['hi'] + 1):
        call = {'shape': [n, n], 'dtype': plan['dtype'],
                'symmetric_data': True, 'noncontig': False}
        for nc in (False, True):
            call['noncontig'] = nc
            x = comm.make_tensor(call, n, 1)
            packed = kd.get_triu(x)
            y = kd.fill_triu(tuple(x.shape), packed)
            oc.stats['triu_roundtrips'] += 1
            if packed.numel() != n * (n + 1) // 2:
                bad('C14.packed_size', n=n, got=packed.numel())
            if y.dtype != dt or tuple(y.shape) != (n, n) or \
                    not torch.equal(y, x):
                bad('C14.roundtrip', n=n, dtype=plan['dtype'], noncontig=nc)
        oc.nontrivial.append(f'triu:{plan["dtype"]}:{n}')
    # the same sizes through a real send/receive on two simulated ranks
    sizes = list(range(plan['lo'], plan['hi'] + 1))
    calls = []
    for n in sizes[:: max(1, len(sizes) // 4)]:
        for kind in ('allreduce', 'broadcast', 'allreduce_bucketed'):
            calls.append({'kind': kind, 'group': 'world', 'shape': [n, n],
                          'dtype': plan['dtype'], 'symmetric': True,
                          'symmetric_data': True, 'average': False,
                          'src_pos': 1, 'noncontig': False})
    p2 = {'kind': 'comm', 'world': 2, 'rows': 1,
          'group_order': ['row', 'col', 'self'], 'cap_mb': 0.001,
          'calls': calls,
          'sim': {'policy': 'lazy', 'poison': True, 'latency': 0.0,
                  'sched_seed': plan['lo']}}
    a = comm.execute(p2, 'as_planned')
    _absorb_comm(oc, a)
    comm.check(p2, a, 'as_planned', bad, oc.stats)
    b = comm.execute(p2, 'dense')
    _absorb_comm(oc, b)
    comm.compare_modes(p2, a, b, 'C14.symmetric_vs_dense', ['C14'], bad,
                       oc.stats)
    oc.violations = [v for v in oc.violations if 'C14' in v['props']]


def registry() -> dict[str, Any]:
    return {c.pid: c() for c in (C08, C14)}
