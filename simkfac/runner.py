"""Parallel seeded search, minimisation, replay files and evidence."""

from __future__ import annotations

import concurrent.futures as cf
import copy
import faulthandler
import hashlib
import json
import multiprocessing as mp
import os
import random
import sys
import time
import traceback
from collections import Counter
from typing import Any

VERIF = os.path.dirname(os.path.dirname(os.path.abspath(__file__)))
REPO = os.environ.get('VERIF_REPO', '/repo')


def setup_paths() -> None:
    """Make `import kfac` resolve to the tree under test."""
    for p in (VERIF, os.path.join(VERIF, 'stubs'), REPO):
        if p in sys.path:
            sys.path.remove(p)
    sys.path.insert(0, VERIF)
    sys.path.insert(0, os.path.join(VERIF, 'stubs'))
    sys.path.insert(0, REPO)
    import warnings

    warnings.filterwarnings('ignore')
    import kfac

    got = os.path.realpath(os.path.dirname(os.path.dirname(kfac.__file__)))
    if got != os.path.realpath(REPO):
        raise RuntimeError(f'kfac imported from {got}, expected {REPO}')


def case_seed(seed: int, pid: str, i: int) -> int:
    h = hashlib.sha256(f'{seed}:{pid}:{i}'.encode()).digest()
    return int.from_bytes(h[:6], 'big')


# ---------------------------------------------------------------------------
# outcome of one case
# ---------------------------------------------------------------------------


class Outcome:
    def __init__(self) -> None:
        self.violations: list[dict[str, Any]] = []
        self.stats: Counter = Counter()
        self.faults: Counter = Counter()
        self.probes: Counter = Counter()
        self.n_sims = 0
        self.sim_time = 0.0
        self.actions = 0
        self.multi = 0
        self.event_digests: list[str] = []
        self.value_digests: list[str] = []
        self.shapes: list[str] = []
        self.nontrivial: list[str] = []
        self.harness_errors: list[str] = []
        self.tapes: Any = None
        self.exhaustive = False

    def absorb_result(self, result: dict[str, Any]) -> None:
        """Fold the simulator counters of a train/comm execution in."""
        for inc in result['incs']:
            self.n_sims += 1
            self.sim_time += inc['sim_time']
            self.actions += inc['n_actions']
            self.multi += inc['multi_enabled']
            self.faults.update(inc['faults'])
            self.probes.update(inc['probes'])
            if inc['status'] == 'crash':
                self.faults['job_crash_and_restart'] += 1
            if inc.get('restart_op') is not None:
                self.faults['restart_from_checkpoint'] += 1
            self.event_digests.append(inc['event_digest'])
            shape = hashlib.sha256(repr(sorted(
                (e[0], e[3], e[6]) for e in inc['log']
                if len(e) > 8)).encode()).hexdigest()[:12]
            self.shapes.append(shape)

    def to_dict(self) -> dict[str, Any]:
        d = dict(self.__dict__)
        d['stats'] = dict(self.stats)
        d['faults'] = dict(self.faults)
        d['probes'] = dict(self.probes)
        return d


def clean(o: Any, depth: int = 0) -> Any:
    """JSON-safe copy (tensors summarised)."""
    import torch

    if isinstance(o, dict):
        return {str(k): clean(v, depth + 1) for k, v in o.items()}
    if isinstance(o, (list, tuple, set, frozenset)):
        return [clean(v, depth + 1) for v in o]
    if isinstance(o, torch.Tensor):
        return f'tensor{tuple(o.shape)}'
    if isinstance(o, float):
        if o != o or o in (float('inf'), float('-inf')):
            return repr(o)
        return o
    if isinstance(o, (int, str, bool)) or o is None:
        return o
    return repr(o)


# ---------------------------------------------------------------------------
# worker side
# ---------------------------------------------------------------------------

_CASES: dict[str, Any] = {}


def get_case(pid: str) -> Any:
    if not _CASES:
        from simkfac import cases

        _CASES.update(cases.registry())
    return _CASES[pid]


def _worker_init() -> None:
    setup_paths()
    import torch

    torch.set_num_threads(1)


def run_chunk(pid: str, tier: str, seeds: list[int],
              timeout: float) -> list[dict[str, Any]]:
    faulthandler.dump_traceback_later(timeout, exit=True)
    case = get_case(pid)
    out = []
    try:
        for s in seeds:
            t0 = time.time()
            rng = random.Random(s)
            try:
                plan = case.gen(rng, tier)
                oc = case.evaluate(plan)
                rec = oc.to_dict()
                rec['plan'] = plan if (
                    oc.violations or oc.harness_errors) else None
                rec['plan_brief'] = case.brief(plan)
            except Exception:  # noqa: BLE001
                rec = Outcome().to_dict()
                rec['harness_errors'] = [traceback.format_exc()[-2500:]]
                rec['plan'] = None
                rec['plan_brief'] = None
            rec['seed'] = s
            rec['wall'] = time.time() - t0
            rec['violations'] = clean(rec['violations'])
            out.append(rec)
    finally:
        faulthandler.cancel_dump_traceback_later()
    return out


def run_fixed(pid: str, plans: list[dict[str, Any]],
              timeout: float, base: int = 0) -> list[dict[str, Any]]:
    """Deterministic, enumerated part of a check (no PRNG involved)."""
    faulthandler.dump_traceback_later(timeout, exit=True)
    case = get_case(pid)
    out = []
    try:
        for i, plan in enumerate(plans):
            t0 = time.time()
            try:
                oc = case.evaluate(plan)
                rec = oc.to_dict()
                rec['plan'] = plan if (
                    oc.violations or oc.harness_errors) else None
                rec['plan_brief'] = case.brief(plan)
            except Exception:  # noqa: BLE001
                rec = Outcome().to_dict()
                rec['harness_errors'] = [traceback.format_exc()[-2500:]]
                rec['plan'] = None
                rec['plan_brief'] = None
            rec['seed'] = -1 - i - base
            rec['wall'] = time.time() - t0
            rec['violations'] = clean(rec['violations'])
            out.append(rec)
    finally:
        faulthandler.cancel_dump_traceback_later()
    return out


def run_one(pid: str, plan: dict[str, Any], tapes: Any,
            timeout: float) -> dict[str, Any]:
    faulthandler.dump_traceback_later(timeout, exit=True)
    try:
        case = get_case(pid)
        oc = case.evaluate(plan, tapes=tapes)
        rec = oc.to_dict()
        rec['violations'] = clean(rec['violations'])
        return rec
    finally:
        faulthandler.cancel_dump_traceback_later()


# ---------------------------------------------------------------------------
# known findings
# ---------------------------------------------------------------------------


def load_findings() -> list[dict[str, Any]]:
    p = os.path.join(VERIF, 'known_findings.json')
    if not os.path.exists(p):
        return []
    with open(p) as f:
        return json.load(f)['findings']


def match_finding(pid: str, plan: dict[str, Any], viols: list[dict[str, Any]],
                  findings: list[dict[str, Any]]) -> dict[str, Any] | None:
    """A listed finding applies iff EVERY violation satisfies its predicate."""
    from simkfac import findings as F

    for f in findings:
        if f.get('status') != 'known' or f['property'] != pid:
            continue
        pred = F.PREDICATES.get(f['key'])
        if pred is None:
            continue
        try:
            if viols and all(pred(plan, v) for v in viols):
                return f
        except Exception:  # noqa: BLE001
            continue
    return None


# ---------------------------------------------------------------------------
# minimisation
# ---------------------------------------------------------------------------


def minimise(pool: cf.Executor, pid: str, plan: dict[str, Any],
             clauses: set[str], budget: float) -> tuple[dict, dict]:
    """Shrink a failing plan while the same clause class persists."""
    case = get_case(pid)
    t_end = time.time() + budget
    tried = 0

    def fails(p: dict[str, Any]) -> dict[str, Any] | None:
        nonlocal tried
        if time.time() > t_end:
            return None
        tried += 1
        try:
            rec = pool.submit(run_one, pid, p, None, 120.0).result(
                timeout=180)
        except Exception:  # noqa: BLE001
            return None
        got = {v['clause'] for v in rec['violations']}
        if got & clauses and not rec['harness_errors']:
            return rec
        return None

    best = copy.deepcopy(plan)
    best_rec = fails(best)
    if best_rec is None:
        return plan, {'minimised': False, 'tried': tried}
    # 1. ddmin over the operation list
    ops_key = case.ops_key
    if ops_key and ops_key in best:
        n = 2
        ops = best[ops_key]
        while len(ops) >= 2 and time.time() < t_end:
            chunk = max(1, len(ops) // n)
            reduced = False
            for i in range(0, len(ops), chunk):
                cand = ops[:i] + ops[i + chunk:]
                if not cand:
                    continue
                p = copy.deepcopy(best)
                p[ops_key] = cand
                if not case.legal(p):
                    continue
                rec = fails(p)
                if rec is not None:
                    best, best_rec, ops = p, rec, cand
                    n = max(n - 1, 2)
                    reduced = True
                    break
            if not reduced:
                if chunk == 1:
                    break
                n = min(len(ops), n * 2)
    # 2. configuration shrinking along an ordered list
    for step in case.shrinkers():
        if time.time() > t_end:
            break
        p = copy.deepcopy(best)
        try:
            if not step(p):
                continue
        except Exception:  # noqa: BLE001
            continue
        if p == best or not case.legal(p):
            continue
        rec = fails(p)
        if rec is not None:
            best, best_rec = p, rec
    return best, {'minimised': True, 'tried': tried, 'rec': best_rec}


# ---------------------------------------------------------------------------
# driver
# ---------------------------------------------------------------------------


def drive(pid: str, tier: str, seed: int, workers: int | None = None,
          n_cases: int | None = None, wall_cap: float | None = None,
          ) -> int:
    setup_paths()
    case = get_case(pid)
    workers = workers or min(16, os.cpu_count() or 4)
    n_cases = n_cases or case.n_cases[tier]
    wall_cap = wall_cap or case.wall_cap[tier]
    chunk = case.chunk[tier]
    t0 = time.time()
    print(f'[{pid}] tier={tier} VERIF_SEED={seed} cases={n_cases} '
          f'workers={workers} repo={REPO}', flush=True)
    ctx = mp.get_context('spawn')
    agg = Outcome()
    evaluations = 0
    viol_cases: list[dict[str, Any]] = []
    samples: list[Any] = []
    harness_errors: list[str] = []
    determinism = {'pairs': 0, 'mismatches': 0}
    wall_hit = False
    nontriv: set[str] = set()
    nontriv_cases: set[str] = set()
    ev_d: set[str] = set()
    shapes: set[str] = set()
    with cf.ProcessPoolExecutor(workers, mp_context=ctx,
                                initializer=_worker_init) as pool:
        seeds = [case_seed(seed, pid, i) for i in range(n_cases)]
        chunks = [seeds[i:i + chunk] for i in range(0, len(seeds), chunk)]
        # determinism pairs: the first chunk is run twice, in two processes
        futs = {pool.submit(run_chunk, pid, tier, c, case.chunk_timeout): c
                for c in chunks}
        fixed = case.fixed_plans(tier)
        for i in range(0, len(fixed), 4):
            futs[pool.submit(run_fixed, pid, fixed[i:i + 4],
                             case.chunk_timeout, i)] = None
        twin = pool.submit(run_chunk, pid, tier, chunks[0],
                           case.chunk_timeout)
        first: Any = None
        try:
            for f in cf.as_completed(futs, timeout=wall_cap):
                recs = f.result()
                if futs[f] is chunks[0]:
                    first = recs
                for rec in recs:
                    evaluations += 1
                    agg.stats.update(rec['stats'])
                    agg.faults.update(rec['faults'])
                    agg.probes.update(rec['probes'])
                    agg.n_sims += rec['n_sims']
                    agg.sim_time += rec['sim_time']
                    agg.actions += rec['actions']
                    agg.multi += rec['multi']
                    ev_d.update(rec['event_digests'])
                    shapes.update(rec['shapes'])
                    nontriv.update(rec['nontrivial'])
                    if rec['nontrivial']:
                        nontriv_cases.add(hashlib.sha256(repr((
                            sorted(rec['event_digests']),
                            sorted(rec['nontrivial']))).encode()
                        ).hexdigest())
                    if rec['exhaustive']:
                        agg.exhaustive = True
                    if rec['harness_errors']:
                        harness_errors.extend(
                            f'seed {rec["seed"]}: {e}'
                            for e in rec['harness_errors'])
                    if rec['violations']:
                        viol_cases.append(rec)
                    if len(samples) < 3 and rec['plan_brief'] is not None:
                        samples.append(rec['plan_brief'])
        except cf.TimeoutError:
            wall_hit = True
            for f in futs:
                f.cancel()
        try:
            second = twin.result(timeout=max(30.0, wall_cap))
            if first is not None:
                for a, b in zip(first, second):
                    determinism['pairs'] += 1
                    if (a['event_digests'], a['value_digests'],
                            json.dumps(a['violations'], sort_keys=True)) != (
                            b['event_digests'], b['value_digests'],
                            json.dumps(b['violations'], sort_keys=True)):
                        determinism['mismatches'] += 1
        except Exception as e:  # noqa: BLE001
            harness_errors.append(f'determinism twin failed: {e!r}')
        # ---------------- violations: minimise, classify, write replays
        findings = load_findings()
        reported = 0
        known_lines: list[str] = []
        os.makedirs(os.path.join(VERIF, 'replays'), exist_ok=True)
        viol_cases.sort(key=lambda r: r['seed'])
        seen_classes: set = set()
        for n, rec in enumerate(viol_cases):
            clauses = {v['clause'] for v in rec['violations']}
            cls = (tuple(sorted(clauses)),)
            plan = rec['plan']
            mrec = rec
            info: dict[str, Any] = {'minimised': False}
            if cls not in seen_classes and len(seen_classes) < 4:
                seen_classes.add(cls)
                plan, info = minimise(pool, pid, plan, clauses,
                                      case.minimise_budget[tier])
                if info.get('rec'):
                    mrec = info['rec']
            kf = match_finding(pid, plan, mrec['violations'], findings)
            if kf is not None:
                line = f'KNOWN-FINDING: property={pid} {kf["text"]}'
                if line not in known_lines:
                    known_lines.append(line)
                continue
            reported += 1
            if reported > 8:
                continue
            path = os.path.join(
                VERIF, 'replays', f'{pid}-{seed}-{rec["seed"]}.json')
            with open(path, 'w') as f:
                json.dump({
                    'property': pid, 'seed': rec['seed'],
                    'verif_seed': seed, 'tier': tier, 'plan': plan,
                    'tapes': mrec.get('tapes'),
                    'clauses': sorted({v['clause']
                                       for v in mrec['violations']}),
                    'violations': mrec['violations'][:6],
                    'event_digests': mrec['event_digests'],
                    'value_digests': mrec['value_digests'],
                    'minimised': info.get('minimised', False),
                    'candidates_tried': info.get('tried', 0),
                }, f, indent=1, default=repr)
            v0 = mrec['violations'][0]
            print(f'VIOLATION property={pid} replay={path}')
            print('  clause=' + v0['clause'] + ' ' + json.dumps(
                {k: v for k, v in v0.items()
                 if k not in ('clause', 'props', 'tb')},
                default=repr)[:600], flush=True)
    for line in known_lines:
        print(line)
    wall = time.time() - t0
    if determinism['mismatches']:
        harness_errors.append(
            f'determinism self-test: {determinism["mismatches"]} of '
            f'{determinism["pairs"]} paired runs differ')
    if wall_hit:
        harness_errors.append('wall-clock cap hit before all cases finished')
    zero_probes = [p for p in case.expected_probes
                   if not (agg.probes.get(p) or agg.stats.get(p)
                           or agg.faults.get(p))]
    for p in zero_probes:
        print(f'[{pid}] WARNING probe stuck at zero: {p}')
    evidence = {
        'property_id': pid, 'tier': tier, 'seed': seed,
        'level': case.level,
        'coverage': {
            'evaluations': evaluations,
            'distinct_nontrivial': len(nontriv_cases),
            'distinct_nontrivial_classes': len(nontriv),
            'rule': case.rule + (
                ' || distinct_nontrivial = cases with at least one '
                'non-vacuous oracle evaluation, distinct by (event digests, '
                'classes reached); distinct_nontrivial_classes = distinct '
                'classes (as named above) reached over the whole run'),
            'samples': samples,
            'exhaustive': bool(agg.exhaustive),
            'enumerated_cases': len(case.fixed_plans(tier)),
            'simulated_runs': agg.n_sims,
            'simulated_runs_per_hour': round(agg.n_sims / wall * 3600),
            'cases_per_hour': round(evaluations / wall * 3600),
            'simulated_seconds': round(agg.sim_time, 3),
            'scheduler_actions': agg.actions,
            'decision_points_with_choice': agg.multi,
            'distinct_event_digests': len(ev_d),
            'distinct_collective_sequence_shapes': len(shapes),
            'faults_fired': dict(sorted(agg.faults.items())),
            'probes': dict(sorted(agg.probes.items())),
            'oracle_counters': dict(sorted(agg.stats.items())),
            'probes_stuck_at_zero': zero_probes,
            'determinism_selftest': determinism,
            'components': case.components,
            'harness_errors': harness_errors[:5],
            'known_findings_reported': known_lines,
        },
        'assumptions': case.assumptions,
        'wall_s': round(wall, 2),
        'violations': reported,
    }
    # evidence/ only ever describes /repo itself; runs against a scratch
    # copy (mutants, seeded changes, refactors) write next to it
    ev_dir = 'evidence' if os.path.realpath(REPO) == '/repo' \
        else 'evidence_scratch'
    evidence['coverage']['repo'] = _repo_identity()
    os.makedirs(os.path.join(VERIF, ev_dir), exist_ok=True)
    with open(os.path.join(VERIF, ev_dir, f'{pid}.json'), 'w') as f:
        json.dump(evidence, f, indent=1, default=repr)
    print(f'[{pid}] {evaluations} cases, {agg.n_sims} simulated runs, '
          f'{len(nontriv_cases)} distinct non-trivial cases '
          f'({len(nontriv)} classes), violations={reported}, '
          f'known={len(known_lines)}, wall={wall:.1f}s', flush=True)
    if reported:
        return 1
    if harness_errors:
        for e in harness_errors[:5]:
            print(f'[{pid}] HARNESS ERROR: {e}', file=sys.stderr)
        return 2
    return 0


def _repo_identity() -> dict[str, Any]:
    import subprocess

    def git(*a: str) -> str:
        try:
            return subprocess.run(
                ['git', '-C', REPO, *a], capture_output=True, text=True,
                timeout=20).stdout.strip()
        except Exception:  # noqa: BLE001
            return ''
    return {'path': os.path.realpath(REPO), 'head': git('rev-parse', 'HEAD'),
            'dirty_files': [ln[3:] for ln in
                            git('status', '--porcelain').splitlines()][:20]}


def write_replay(pid: str, plan_path: str, out_path: str) -> int:
    """Evaluate a hand-written plan and store it in replay format."""
    setup_paths()
    with open(plan_path) as f:
        plan = json.load(f)
    ctx = mp.get_context('spawn')
    with cf.ProcessPoolExecutor(1, mp_context=ctx,
                                initializer=_worker_init) as pool:
        rec = pool.submit(run_one, pid, plan, None, 300.0).result()
    with open(out_path, 'w') as f:
        json.dump({
            'property': pid, 'seed': None, 'verif_seed': None,
            'tier': 'manual', 'plan': plan, 'tapes': rec.get('tapes'),
            'clauses': sorted({v['clause'] for v in rec['violations']}),
            'violations': rec['violations'][:6],
            'event_digests': rec['event_digests'],
            'value_digests': rec['value_digests'], 'minimised': False,
            'candidates_tried': 0,
        }, f, indent=1, default=repr)
    print(f'[{pid}] wrote {out_path}: clauses='
          f'{sorted({v["clause"] for v in rec["violations"]})}')
    return 0


def replay(pid: str, path: str) -> int:
    setup_paths()
    with open(path) as f:
        rp = json.load(f)
    ctx = mp.get_context('spawn')
    with cf.ProcessPoolExecutor(1, mp_context=ctx,
                                initializer=_worker_init) as pool:
        rec = pool.submit(run_one, pid, rp['plan'], rp.get('tapes'),
                          300.0).result()
    got = sorted({v['clause'] for v in rec['violations']})
    same_clause = bool(set(got) & set(rp['clauses']))
    same_events = rec['event_digests'] == rp['event_digests']
    same_values = rec['value_digests'] == rp['value_digests']
    print(f'[{pid}] replay clauses={got} expected={rp["clauses"]} '
          f'event_digest_equal={same_events} '
          f'value_digest_equal={same_values}')
    if same_clause and same_events:
        kf = match_finding(pid, rp['plan'], rec['violations'],
                           load_findings())
        if kf is not None:
            print(f'KNOWN-FINDING: property={pid} {kf["text"]}')
            return 0
        print(f'VIOLATION property={pid} replay={path}')
        return 1
    if not rec['violations']:
        print(f'[{pid}] replay did not reproduce the violation')
        return 0
    return 3
