"""Per-property cases: generator profile + evaluation + shrinkers."""

from __future__ import annotations

import copy
import random
from typing import Any, Callable

from simkfac.runner import Outcome

COMPONENTS_TRAIN = {
    'real': [
        'all of /repo/kfac (preconditioner, layers, assignment, '
        'distributed, scheduler, hyperparams)',
        'torch autograd, nn.Linear/Conv2d/BatchNorm/LayerNorm/Embedding, '
        'torch.linalg.eigh/inv', 'torch.save/torch.load (to memory)',
        'torch.optim.SGD',
    ],
    'stub': [
        'torch.distributed (SimDist transport, c10d semantics)',
        'torch.futures.Future (SimFuture)',
        'DistributedDataParallel (explicit averaged all_reduce of gradients)',
        'process death/restart (fresh objects + serialized checkpoint)',
    ],
}

ASSUME_TRAIN = [
    'SimDist models c10d: reliable per-group FIFO collectives, in-place '
    'results, buffers undefined until the future resolves',
    'ranks share no state but the transport, so pre-emption at transport '
    'calls covers all interleavings',
    'numerical oracles are tolerance based: C*eps*cond (C=64 against the '
    'float64 reference, 16 between same-precision runs)',
]


class BaseCase:
    pid = ''
    level = 'exploration'
    ops_key: str | None = 'ops'
    n_cases = {'quick': 600, 'thorough': 8000}
    wall_cap = {'quick': 1500.0, 'thorough': 14400.0}
    chunk = {'quick': 8, 'thorough': 25}
    chunk_timeout = 1800.0
    minimise_budget = {'quick': 60.0, 'thorough': 180.0}
    expected_probes: list[str] = []
    components = COMPONENTS_TRAIN
    assumptions = ASSUME_TRAIN
    rule = ''

    def gen(self, rng: random.Random, tier: str) -> dict[str, Any]:
        raise NotImplementedError

    def evaluate(self, plan: dict[str, Any], tapes: Any = None) -> Outcome:
        raise NotImplementedError

    def brief(self, plan: dict[str, Any]) -> Any:
        return plan

    def fixed_plans(self, tier: str) -> list[dict[str, Any]]:
        return []

    def legal(self, plan: dict[str, Any]) -> bool:
        return True

    def shrinkers(self) -> list[Callable[[dict[str, Any]], bool]]:
        return []


# ---------------------------------------------------------------------------
# W-train based cases
# ---------------------------------------------------------------------------


def _set(path: list[str], value: Any) -> Callable[[dict[str, Any]], bool]:
    def f(p: dict[str, Any]) -> bool:
        d = p
        for k in path[:-1]:
            d = d[k]
        if d.get(path[-1]) == value:
            return False
        d[path[-1]] = value
        return True
    return f


def _const_hp(name: str) -> Callable[[dict[str, Any]], bool]:
    def f(p: dict[str, Any]) -> bool:
        s = p['hps'][name]
        if 'c' in s:
            return False
        v = s['vals'][0] if s['f'] in ('cycle', 'ext') else s['cap']
        p['hps'][name] = {'c': v}
        return True
    return f


def _shrink_world(p: dict[str, Any]) -> bool:
    w = p['world']
    if w <= 1:
        return False
    for nw in (2, 1, 3, 4):
        if nw < w:
            p['world'] = nw
            k = p['placement']['k']
            k = max(d for d in range(1, nw + 1)
                    if nw % d == 0 and d <= max(1, k))
            p['placement']['k'] = k
            p['placement']['gwf'] = [k, nw]
            for op in p['ops']:
                if op.get('ranks'):
                    op['ranks'] = sorted({r for r in op['ranks'] if r < nw}
                                         | {0})
            return True
    return False


class TrainCase(BaseCase):
    gen_kw: dict[str, Any] = {}
    force_monitors: dict[str, bool] = {}

    def gen(self, rng: random.Random, tier: str) -> dict[str, Any]:
        from simkfac import gen

        plan = gen.gen_train_plan(rng, tier=tier, **self.gen_kw)
        plan['monitors'].update(self.force_monitors)
        return plan

    def brief(self, plan: dict[str, Any]) -> Any:
        b = {k: plan[k] for k in (
            'world', 'method', 'prediv', 'placement', 'hps', 'scheduler',
            'acc', 'hook', 'ops', 'sim', 'monitors')}
        b['model_layers'] = [
            {k: v for k, v in layer.items() if k != 'layers'}
            for layer in plan['model']['layers']]
        return b

    def legal(self, plan: dict[str, Any]) -> bool:
        ops = plan['ops']
        if not any(o['op'] == 'train' for o in ops):
            return False
        if ops[-1]['op'] == 'restart':
            return False
        if plan['placement']['k'] > plan['world']:
            return False
        from simkfac import gen

        return gen.ops_legal(plan)

    def shrinkers(self) -> list[Callable[[dict[str, Any]], bool]]:
        return [
            _shrink_world, _shrink_world,
            _set(['placement', 'bucket_cap_mb'], 0),
            _set(['placement', 'symmetry_aware'], False),
            _set(['sim', 'poison'], False),
            _set(['sim', 'policy'], 'round_robin'),
            _set(['sim', 'latency'], 0.0),
            _set(['monitors', 'twin'], False),
            _set(['monitors', 'memory'], False),
            _set(['loss_scaling'], False),
            _set(['acc'], 1),
            _set(['scheduler'], {}),
        ] + [_const_hp(n) for n in (
            'factor_update_steps', 'inv_update_steps', 'damping',
            'factor_decay', 'kl_clip', 'lr')]

    # -- evaluation -------------------------------------------------------
    def run_and_analyse(self, plan: dict[str, Any], oc: Outcome,
                        tapes: Any = None, inject: Any = None) -> Any:
        from simkfac import oracle_train, train

        res = train.execute(plan, tapes, inject)
        oc.absorb_result(res)
        rep = oracle_train.analyse(plan, res)
        oc.stats.update(rep.stats)
        oc.harness_errors.extend(rep.harness_errors)
        oc.nontrivial.extend(repr(k) for k in sorted(
            rep.nontrivial_keys, key=repr))
        oc.value_digests.append(train.value_digest(res))
        tp = [inc['decisions'] for inc in res['incs']]
        return res, rep, tp

    def evaluate(self, plan: dict[str, Any], tapes: Any = None) -> Outcome:
        oc = Outcome()
        res, rep, tp = self.run_and_analyse(plan, oc, tapes)
        oc.tapes = tp
        oc.violations = rep.for_prop(self.pid)
        return oc


class C01(TrainCase):
    pid = 'C01'
    gen_kw = dict(restarts=0.2, extras=0.3, scheduler=0.15, max_ops=8)
    force_monitors = {'read_factors': True}
    expected_probes = ['c01_solves_checked', 'steps_stale',
                       'inflight_poison']
    rule = ('seeded W-train plans (world, placement, method, pre-division, '
            'dtypes, layer zoo, damping/decay schedules, histories up to 8 '
            'ops); after every step on every rank the gradient is compared '
            'with nu*V from a dense float64 Kronecker solve using the '
            "layer's own factors as read at the last refresh; distinct = "
            'distinct (method, prediv, world, placement, refresh?, '
            'factor-step?, clipped?, #layers, hook, acc) tuples among '
            'non-vacuous steps')


class C04(TrainCase):
    pid = 'C04'
    gen_kw = dict(restarts=0.25, extras=0.6, scheduler=0.15, max_ops=10,
                  low_precision=0.08)
    force_monitors = {'read_factors': True}
    expected_probes = ['factor_comparisons', 'factor_unchanged_checks',
                       'eval_pass']
    rule = ('seeded W-train histories with reading of factors through '
            'state_dict() after every operation; factors compared with the '
            'float64 recurrence computed from raw activations (F.unfold) '
            'averaged over micro-batches and ranks; distinct as for C01')


class C05(TrainCase):
    pid = 'C05'
    gen_kw = dict(restarts=0.3, extras=0.7, scheduler=0.5, callables=0.5,
                  max_ops=12,
                  monitors={'read_factors': 0.4, 'memory': 0.3, 'twin': 0.1,
                            'read_hps': 0.7})
    expected_probes = ['steps_stale', 'steps_no_factor_update',
                       'callable_hp_evaluations', 'restarts',
                       'sched_steps_checked', 'eval_pass',
                       'reset_batch_at_boundary']
    rule = ('seeded histories of train/eval/reset/scheduler/checkpoint '
            'round-trip operations with constant, callable and scheduled '
            'hyper-parameters; gradients after every step compared with '
            'the RefKFAC state machine; recording callables and '
            'decomposition counters checked; distinct as for C01')


class C07(TrainCase):
    pid = 'C07'
    gen_kw = dict(restarts=0.4, extras=0.3, scheduler=0.3, max_ops=6,
                  clip_none=0.25)
    force_monitors = {'read_factors': True}
    expected_probes = ['clip_checks', 'clip_none', 'clip_zero_inner',
                       'nu_lt_1', 'nu_eq_1']
    rule = ('seeded W-train plans with constant/callable/scheduled/None '
            'kl_clip and lr; per step and rank the least-squares scale '
            'between final gradients and unclipped V is compared with the '
            'formula, the KL bound, positivity and cross-rank agreement')


    def gen(self, rng: random.Random, tier: str) -> dict[str, Any]:
        if rng.random() < 0.12:
            from simkfac import neox

            plan = neox.gen_neox_plan(rng, tier, restarts=0.0)
            if 'c' in plan['hps']['kl_clip'] and plan['hps']['kl_clip'][
                    'c'] == 1e6:
                plan['hps']['kl_clip'] = {'c': rng.choice([0.001, 0.05])}
            return plan
        return super().gen(rng, tier)

    def brief(self, plan: dict[str, Any]) -> Any:
        return _other(plan).brief(plan) if plan['kind'] != 'train' \
            else super().brief(plan)

    def legal(self, plan: dict[str, Any]) -> bool:
        return _other(plan).legal(plan) if plan['kind'] != 'train' \
            else super().legal(plan)

    def evaluate(self, plan: dict[str, Any], tapes: Any = None) -> Outcome:
        if plan['kind'] == 'train':
            return super().evaluate(plan, tapes)
        oc = _other(plan).evaluate_all(plan, tapes)
        oc.violations = [v for v in oc.violations if 'C07' in v['props']]
        return oc


class C10(TrainCase):
    pid = 'C10'
    gen_kw = dict(restarts=0.0, extras=0.8, scheduler=0.1, max_ops=6,
                  low_precision=0.1)
    force_monitors = {'twin': True}
    expected_probes = ['twin_compared', 'eval_pass']
    rule = ('seeded module trees (conv/linear/BN/LN/embedding/frozen/'
            'skipped/aliased) trained with a K-FAC-free twin fed the same '
            'batches; before/after snapshots of parameters, buffers, '
            'foreign gradients, gradient metadata and K-FAC state across '
            'eval passes')


class C13(TrainCase):
    pid = 'C13'
    gen_kw = dict(restarts=0.25, extras=0.55, scheduler=0.35, max_ops=8,
                  min_world=1)
    force_monitors = {'memory': True}
    expected_probes = ['memory_monitor', 'traffic_checks',
                       'steps_with_broadcasts', 'restarts']
    rule = ('seeded W-train plans over all strategies; after every step '
            'the tensors held by each layer object, memory_usage(), the '
            'kfac-tagged transport log (kind, group, elements) and the '
            'decomposition counters are compared with what the strategy '
            'implies')


class C03(TrainCase):
    pid = 'C03'
    gen_kw = dict(restarts=0.35, extras=0.8, scheduler=0.2, max_ops=12,
                  min_world=2, callables=0.5, low_precision=0.08)
    expected_probes = ['restarts', 'memory_query_subset', 'eval_pass',
                       'checkpoint_saved', 'straggler_stall',
                       'cross_group_reorder', 'job_crash_and_restart']
    rule = ('seeded multi-rank histories with the full operation alphabet '
            '(train/eval/reset/memory query on subsets/save on subsets/'
            'scheduler/crash/restart) under six scheduling policies and '
            'in-flight poisoning; trace checker over the transport log + '
            'deadlock detection; distinct = distinct per-group collective '
            'sequence shapes')

    def gen(self, rng: random.Random, tier: str) -> dict[str, Any]:
        r = rng.random()
        if r < 0.12:
            from simkfac import comm

            return comm.gen_comm_plan(rng, tier=tier, symmetric_only=False,
                                      mixed_dtypes=rng.random() < 0.3)
        if r < 0.37:
            from simkfac import neox

            return neox.gen_neox_plan(rng, tier, restarts=0.6)
        return super().gen(rng, tier)

    def brief(self, plan: dict[str, Any]) -> Any:
        return _other(plan).brief(plan) if plan['kind'] != 'train' \
            else super().brief(plan)

    def legal(self, plan: dict[str, Any]) -> bool:
        return _other(plan).legal(plan) if plan['kind'] != 'train' \
            else super().legal(plan)

    def evaluate(self, plan: dict[str, Any], tapes: Any = None) -> Outcome:
        if plan['kind'] == 'train':
            oc = super().evaluate(plan, tapes)
        else:
            oc = _other(plan).evaluate_all(plan, tapes)
            oc.violations = [v for v in oc.violations
                             if 'C03' in v['props']]
        oc.nontrivial = list(oc.shapes)
        return oc


def _other(plan: dict[str, Any]) -> Any:
    from simkfac import cases_other

    return {'comm': cases_other.C08(), 'neox': cases_other.C11()}[
        plan['kind']]


class C19(TrainCase):
    pid = 'C19'
    gen_kw = dict(restarts=0.2, extras=1.0, scheduler=1.0, callables=0.3,
                  max_ops=10, max_world=2)
    expected_probes = ['sched_steps_checked', 'refusal_checks',
                       'expdecay_values_checked']
    rule = ('seeded histories with a LambdaParamScheduler over random '
            'subsets of constant hyper-parameters, explicit and implicit '
            'step arguments, checkpoint round-trips; every public '
            'hyper-parameter compared with the reference after each '
            'scheduler step; constructor refusal of parameters that are '
            'already functions; enumerated sweep of '
            'exp_decay_factor_averaging over steps 0..10^4 x caps '
            '(labelled enumeration of a pure function)')

    def fixed_plans(self, tier: str) -> list[dict[str, Any]]:
        caps = [0.95, 1.0, 0.5, 0.3, 1e-3, 2.0, 0.999999]
        return [{'kind': 'expdecay_sweep', 'cap': c,
                 'hi': 10000 if tier == 'quick' else 200000} for c in caps
                ] + [{'kind': 'sched_refuse', 'seed': i} for i in range(8)]

    def brief(self, plan: dict[str, Any]) -> Any:
        return plan if plan['kind'] != 'train' else super().brief(plan)

    def legal(self, plan: dict[str, Any]) -> bool:
        return plan['kind'] != 'train' or super().legal(plan)

    def evaluate(self, plan: dict[str, Any], tapes: Any = None) -> Outcome:
        if plan['kind'] == 'train':
            return super().evaluate(plan, tapes)
        oc = Outcome()

        def bad(clause: str, **d: Any) -> None:
            oc.violations.append({'clause': clause, 'props': ['C19'], **d})

        if plan['kind'] == 'expdecay_sweep':
            from kfac.hyperparams import exp_decay_factor_averaging

            cap = plan['cap']
            f = exp_decay_factor_averaging(cap)
            prev = None
            for k in list(range(0, 300)) + list(range(300, plan['hi'], 97)):
                v = f(k)
                want = min(1 - 1 / max(k, 1), cap)
                oc.stats['expdecay_values_checked'] += 1
                if v != want or not (0 <= v <= cap):
                    bad('C19.expdecay_value', k=k, cap=cap, got=v, want=want)
                    break
                if prev is not None and v < prev:
                    bad('C19.expdecay_not_monotone', k=k, cap=cap)
                    break
                prev = v
            # the schedule is a function of k alone: the same object asked
            # again, out of order (a rollback, two users of one schedule)
            import random as _r2

            rr = _r2.Random(int(cap * 1000) + 17)
            for k in [rr.randrange(0, plan['hi']) for _ in range(200)] + [
                    0, 1, 2, 3, 5, 19, 20, 21]:
                v = f(k)
                want = min(1 - 1 / max(k, 1), cap)
                oc.stats['expdecay_values_checked'] += 1
                if v != want:
                    bad('C19.expdecay_depends_on_history', k=k, cap=cap,
                        got=v, want=want)
                    break
            for badcap in (0, -1.0):
                try:
                    exp_decay_factor_averaging(badcap)
                    bad('C19.expdecay_accepts_nonpositive_cap', cap=badcap)
                except ValueError:
                    pass
            oc.nontrivial = [f'expdecay:{cap}']
            return oc
        # constructor refusal: every parameter given as a function must be
        # refused, every constant one accepted
        import random as _r
        import torch
        from kfac.preconditioner import KFACPreconditioner
        from kfac.scheduler import LambdaParamScheduler
        from simkfac import hp as hpmod

        rng = _r.Random(plan['seed'])
        names = list(hpmod.HP_NAMES)
        callables = {n for n in names if rng.random() < 0.5}
        kw: dict[str, Any] = {}
        import functools

        class _Obj:
            def __init__(self, c: Any) -> None:
                self.c = c

            def __call__(self, s: int) -> Any:
                return self.c

            def method(self, s: int) -> Any:
                return self.c

        def _fn(c: Any, s: int) -> Any:
            return c

        for n in names:
            const = 2 if n in hpmod.INT_HPS else 0.5
            # "already a function": every kind of callable counts
            kind = rng.choice(['lambda', 'partial', 'object', 'method'])
            fn = {'lambda': (lambda s, c=const: c),
                  'partial': functools.partial(_fn, const),
                  'object': _Obj(const),
                  'method': _Obj(const).method}[kind]
            kw[n] = fn if n in callables else const
        pre = KFACPreconditioner(torch.nn.Linear(3, 2), **kw)
        for n in names:
            oc.stats['refusal_checks'] += 1
            try:
                LambdaParamScheduler(pre, **{n + '_lambda': lambda s: 1.0})
                if n in callables:
                    bad('C19.callable_parameter_accepted', name=n)
            except ValueError:
                if n not in callables:
                    bad('C19.constant_parameter_refused', name=n)
        oc.nontrivial = [f'refuse:{sorted(callables)}']
        return oc


class C02(TrainCase):
    pid = 'C02'
    gen_kw = dict(restarts=0.0, extras=0.2, scheduler=0.1, max_ops=5,
                  min_world=2)
    n_cases = {'quick': 350, 'thorough': 5000}
    expected_probes = ['cross_rank_comparisons', 'placement_comparisons',
                       'single_process_comparisons']
    rule = ('one drawn (model, data, history, hyper-parameters) is run '
            'under placement A, under a different placement B with a '
            'different schedule/fault tape, and as a single process over '
            'the union of the per-rank batches; gradients after every step '
            'compared across ranks, A vs B, A vs single process')

    def gen(self, rng: random.Random, tier: str) -> dict[str, Any]:
        from simkfac import gen, sched

        plan = super().gen(rng, tier)
        for op in plan['ops']:
            op.pop('reset_after', None)
        b = gen.gen_placement(rng, plan['world'], plan['prediv'],
                              plan['method'])
        plan['variant'] = {
            'placement': b,
            'sim': {
                'policy': rng.choice(sched.POLICIES),
                'poison': rng.random() < 0.6,
                'late_read': rng.random() < 0.25,
                'unordered': rng.random() < 0.25,
                'latency': rng.choice([0.0, 1e-4, 1e-2]),
                'bandwidth': 1e9,
                'sched_seed': rng.randrange(1 << 30),
            },
        }
        return plan

    def legal(self, plan: dict[str, Any]) -> bool:
        return super().legal(plan) and plan['world'] >= 2 and \
            plan['variant']['placement']['k'] <= plan['world'] and \
            plan['world'] % plan['variant']['placement']['k'] == 0

    def shrinkers(self) -> list[Callable[[dict[str, Any]], bool]]:
        def shrink_both(p: dict[str, Any]) -> bool:
            if not _shrink_world(p):
                return False
            nw = p['world']
            k = p['variant']['placement']['k']
            k = max(d for d in range(1, nw + 1)
                    if nw % d == 0 and d <= max(1, k))
            p['variant']['placement']['k'] = k
            p['variant']['placement']['gwf'] = [k, nw]
            return nw >= 2
        return [shrink_both] + super().shrinkers()[2:]

    def evaluate(self, plan: dict[str, Any], tapes: Any = None) -> Outcome:
        from simkfac import oracle_train

        oc = Outcome()
        tapes = tapes or {}
        pa = copy.deepcopy(plan)
        pa.pop('variant')
        pa['record_weights'] = True
        res_a, rep_a, ta = self.run_and_analyse(pa, oc, tapes.get('A'))
        inject = {'weights': {p['key'][1]: p['weights']
                              for p in rep_a.per_op
                              if p['weights'] is not None}}
        viol = rep_a.for_prop('C02')
        eps = oracle_train.coarsest_eps(plan)
        ok_a = res_a['status'] == 'ok'
        pb = copy.deepcopy(pa)
        pb['record_weights'] = False
        pb['placement'] = plan['variant']['placement']
        pb['sim'] = plan['variant']['sim']
        res_b, rep_b, tb = self.run_and_analyse(pb, oc, tapes.get('B'),
                                                inject)
        viol += rep_b.for_prop('C02')
        pc = copy.deepcopy(pa)
        pc['record_weights'] = False
        pc['world'] = 1
        pc['emulate_world'] = plan['world']
        pc['placement'] = dict(pa['placement'], gwf='COMM_OPT', k=1)
        pc['initialized'] = False
        pc['monitors'] = dict(pa['monitors'], memory=False, twin=False)
        for op in pc['ops']:
            if op.get('ranks'):
                op['ranks'] = [0]
        res_c, rep_c, tc = self.run_and_analyse(pc, oc, tapes.get('C'),
                                                inject)
        holder = oracle_train.Report()
        if ok_a and res_b['status'] == 'ok':
            n = oracle_train.compare_runs(holder, rep_a, rep_b,
                                          'C02.cross_placement', eps)
            oc.stats['placement_comparisons'] += n
        if ok_a and res_c['status'] == 'ok':
            n = oracle_train.compare_runs(holder, rep_a, rep_c,
                                          'C02.single_process', eps)
            oc.stats['single_process_comparisons'] += n
        viol += holder.violations
        oc.violations = viol
        oc.tapes = {'A': ta, 'B': tb, 'C': tc}
        return oc


class C09(TrainCase):
    pid = 'C09'
    level = 'fault_enumeration'
    gen_kw = dict(restarts=0.9, extras=0.5, scheduler=0.2, max_ops=10)
    n_cases = {'quick': 400, 'thorough': 5000}
    expected_probes = ['restarts', 'bad_state_load_tried',
                       'resume_comparisons', 'resume_outside_precondition',
                       'crash_mid_operation', 'checkpoint_saved']
    rule = ('seeded histories with checkpoints at drawn step boundaries, '
            'crashes at boundaries and mid-operation (event countdown), '
            'restart into fresh objects from the serialized state, '
            'compute_inverses on/off, factors in/out of the state; the '
            'resumed run is compared with the restarted reference and with '
            'a third, uninterrupted simulation of the effective history '
            'wherever the reference says the two must agree')

    def gen(self, rng: random.Random, tier: str) -> dict[str, Any]:
        if tier == 'thorough' and rng.random() < 0.25:
            # every step boundary of one drawn history as the crash point
            from simkfac import gen

            plan = gen.gen_train_plan(rng, tier=tier, restarts=0.0,
                                      extras=0.4, scheduler=0.2, max_ops=6)
            for op in plan['ops']:
                op.pop('reset_after', None)
            plan['enum_boundaries'] = {
                'compute_inverses': rng.random() < 0.7,
                'ranks': rng.choice([[0], None])}
            return plan
        while True:
            plan = super().gen(rng, tier)
            if any(o['op'] == 'restart' for o in plan['ops']):
                return plan

    def evaluate(self, plan: dict[str, Any], tapes: Any = None) -> Outcome:
        if plan.get('enum_boundaries'):
            return self._evaluate_boundaries(plan)
        return self._evaluate_one(plan, tapes)

    def _evaluate_boundaries(self, plan: dict[str, Any]) -> Outcome:
        from simkfac.gen import Mirror

        oc = Outcome()
        eb = plan['enum_boundaries']
        ops = plan['ops']
        n_train = 0
        for b in range(1, len(ops) + 1):
            if ops[b - 1]['op'] != 'train':
                continue
            n_train += 1
            m = Mirror(plan['hps'], plan.get('scheduler') or {})
            for op in ops[:b]:
                if op['op'] == 'train':
                    m.ref.steps += 1
                elif op['op'] == 'sched' and plan.get('scheduler'):
                    m.ref.sched_step(plan['scheduler'], op.get('step'))
            ci = eb['compute_inverses'] or not m.ref.is_inv_step()
            sub = {k: v for k, v in plan.items() if k != 'enum_boundaries'}
            sub['ops'] = ops[:b] + [
                {'op': 'save', 'ranks': eb['ranks'],
                 'include_factors': True},
                {'op': 'restart', 'compute_inverses': ci},
            ] + (ops[b:] or [{'op': 'train', 'it': 900 + b}])
            o = self._evaluate_one(sub, None)
            oc.violations += [dict(v, boundary=b) for v in o.violations]
            oc.stats.update(o.stats)
            oc.faults.update(o.faults)
            oc.probes.update(o.probes)
            oc.n_sims += o.n_sims
            oc.sim_time += o.sim_time
            oc.actions += o.actions
            oc.multi += o.multi
            oc.event_digests += o.event_digests
            oc.value_digests += o.value_digests
            oc.shapes += o.shapes
            oc.nontrivial += o.nontrivial
            oc.harness_errors += o.harness_errors
        oc.stats['histories_with_every_boundary_enumerated'] += 1
        oc.stats['boundaries_enumerated'] += n_train
        return oc

    def _evaluate_one(self, plan: dict[str, Any],
                      tapes: Any = None) -> Outcome:
        from simkfac import oracle_train
        from simkfac.train import split_incarnations

        oc = Outcome()
        tapes = tapes or {}
        plan = dict(plan, record_weights=True)
        res, rep, ta = self.run_and_analyse(plan, oc, tapes.get('A'))
        oc.tapes = {'A': ta}
        viol = rep.for_prop('C09')
        if res['status'] == 'ok' and len(res['incs']) > 1:
            # effective history -> uninterrupted plan
            eff = _effective_ops(plan, res)
            if eff is not None:
                pu = copy.deepcopy(plan)
                pu['ops'] = eff
                pu['record_weights'] = False
                inject = {'weights': {
                    p['eff_pos']: p['weights'] for p in rep.per_op
                    if p['weights'] is not None}}
                res_u, rep_u, tu = self.run_and_analyse(
                    pu, oc, tapes.get('U'), inject)
                oc.tapes['U'] = tu
                if res_u['status'] == 'ok':
                    holder = oracle_train.Report()
                    n = oracle_train.compare_runs(
                        holder, rep, rep_u, 'C09.resume_vs_uninterrupted',
                        oracle_train.coarsest_eps(plan), only_agree=True)
                    oc.stats['resume_comparisons'] += n
                    oc.stats.update(holder.stats)
                    viol += holder.violations
        oc.violations = viol
        return oc


def _effective_ops(plan: dict[str, Any],
                   res: dict[str, Any]) -> list[dict[str, Any]] | None:
    """Operations of the effective history (lost work removed)."""
    from simkfac.train import split_incarnations

    incs = split_incarnations(plan['ops'])
    hist: dict[int, list[tuple]] = {}
    for k, inc in enumerate(res['incs']):
        if k == 0:
            eff: list[tuple] = []
        else:
            prev = res['incs'][k - 1]
            ci, cj = prev['ckpt_op_index'], prev['ckpt_inc']
            if ci is None:
                eff = []
            else:
                if (cj, ci) not in hist[cj]:
                    return None
                eff = list(hist[cj][:hist[cj].index((cj, ci)) + 1])
        done = set()
        recs = inc['records']
        for idx, op in incs[k]['ops']:
            if all(any(rec.get('i') == idx and rec.get('done')
                       for rec in recs[r]) for r in recs):
                done.add(idx)
        for idx, op in incs[k]['ops']:
            if idx not in done:
                break
            eff.append((k, idx))
        hist[k] = eff
    out = []
    for (k, idx) in hist[len(res['incs']) - 1]:
        op = dict(plan['ops'][idx])
        if op['op'] == 'crash_arm':
            op = {'op': 'nop'}
        out.append(op)
    return out


def registry() -> dict[str, Any]:
    from simkfac import cases_other

    reg = {c.pid: c() for c in (
        C01, C02, C03, C04, C05, C07, C09, C10, C13, C19)}
    reg.update(cases_other.registry())
    return reg
