"""W-neox: GPT-NeoX style 3-D parallel training with the real
GPTNeoXKFACPreconditioner on stub Megatron layers and a stub PipelineModule.

Every pipeline stage trains its own sub-network ([column-parallel, tanh,
row-parallel] blocks) on stage-local synthetic activations; inter-stage p2p
is not simulated because kfac never touches it (DESIGN 2.8).
"""

from __future__ import annotations

import copy
import io
import random
import traceback
import warnings
from typing import Any

import torch
import torch.distributed as dist
import torch.nn.functional as F

from simkfac import core, hp as hpmod, sched
from simkfac.models import _mix
from simkfac.train import _bytes, find_instances, split_incarnations

# ---------------------------------------------------------------------------
# stub Megatron layers (class names are what kfac matches on)
# ---------------------------------------------------------------------------


def _gsize(group: Any) -> int:
    return 1 if group is None else dist.get_world_size(group)


class _CopyToMP(torch.autograd.Function):
    @staticmethod
    def forward(ctx: Any, x: torch.Tensor, group: Any) -> torch.Tensor:
        ctx.group = group
        return x.view_as(x)

    @staticmethod
    def backward(ctx: Any, g: torch.Tensor) -> Any:
        g = g.clone()
        if _gsize(ctx.group) > 1:
            with core.origin('stub'):
                dist.all_reduce(g, group=ctx.group)
        return g, None


class _ReduceFromMP(torch.autograd.Function):
    @staticmethod
    def forward(ctx: Any, x: torch.Tensor, group: Any) -> torch.Tensor:
        x = x.clone()
        if _gsize(group) > 1:
            with core.origin('stub'):
                dist.all_reduce(x, group=group)
        return x

    @staticmethod
    def backward(ctx: Any, g: torch.Tensor) -> Any:
        return g, None


class ColumnParallelLinear(torch.nn.Module):
    """Output features sharded over the model-parallel group."""

    def __init__(self, w: torch.Tensor, b: torch.Tensor | None, group: Any,
                 coord: int, size: int) -> None:
        super().__init__()
        self.group = group
        rows = w.shape[0] // size
        self.weight = torch.nn.Parameter(
            w[coord * rows:(coord + 1) * rows].clone())
        self.bias = None if b is None else torch.nn.Parameter(
            b[coord * rows:(coord + 1) * rows].clone())

    def forward(self, x: torch.Tensor) -> torch.Tensor:
        x = _CopyToMP.apply(x, self.group)
        return F.linear(x, self.weight, self.bias)


class RowParallelLinear(torch.nn.Module):
    """Input features sharded over the model-parallel group."""

    def __init__(self, w: torch.Tensor, b: torch.Tensor | None, group: Any,
                 coord: int, size: int) -> None:
        super().__init__()
        self.group = group
        cols = w.shape[1] // size
        self.weight = torch.nn.Parameter(
            w[:, coord * cols:(coord + 1) * cols].clone())
        self.bias = None if b is None else torch.nn.Parameter(b.clone())

    def forward(self, x: torch.Tensor) -> torch.Tensor:
        y = F.linear(x, self.weight)
        y = _ReduceFromMP.apply(y, self.group)
        if self.bias is not None:
            y = y + self.bias
        return y


# ---------------------------------------------------------------------------
# simulated file system for factor_checkpoint_dir
# ---------------------------------------------------------------------------


class SimFS:
    def __init__(self) -> None:
        self.dirs: set[str] = set()
        self.files: dict[str, bytes] = {}
        self.ops = 0

    def snapshot(self) -> dict[str, Any]:
        return {'dirs': set(self.dirs), 'files': dict(self.files)}

    def restore(self, snap: dict[str, Any] | None) -> None:
        self.dirs = set(snap['dirs']) if snap else set()
        self.files = dict(snap['files']) if snap else {}


class _FakePath:
    def __init__(self, fs: SimFS) -> None:
        self.fs = fs

    def join(self, *a: str) -> str:
        return '/'.join(x.rstrip('/') for x in a)

    def isdir(self, p: str) -> bool:
        _fs_yield(self.fs)
        return p.rstrip('/') in self.fs.dirs

    def exists(self, p: str) -> bool:
        _fs_yield(self.fs)
        return p in self.fs.files or p.rstrip('/') in self.fs.dirs


class FakeOS:
    """What kfac.gpt_neox.preconditioner sees as `os`."""

    def __init__(self, fs: SimFS) -> None:
        self.fs = fs
        self.path = _FakePath(fs)

    def makedirs(self, p: str, exist_ok: bool = False) -> None:
        _fs_yield(self.fs)
        self.fs.dirs.add(p.rstrip('/'))

    def __getattr__(self, name: str) -> Any:
        # everything that is not the file system (os.environ, os.getpid...)
        # is the real module; os.environ is itself a per-rank seam
        import os as real

        return getattr(real, name)


def _fs_yield(fs: SimFS) -> None:
    fs.ops += 1
    sim = core._ACTIVE
    if sim is not None and getattr(core._tl, 'rank', None) is not None:
        sim.n_events += 1
        sim.log.append(('fs', core.cur_rank(), fs.ops))
        sim._yield('runnable')


# ---------------------------------------------------------------------------
# plan helpers
# ---------------------------------------------------------------------------


def topo_of(plan: dict[str, Any]) -> Any:
    from deepspeed.runtime.pipe.topology import PipeModelDataParallelTopology

    return PipeModelDataParallelTopology(
        num_pp=plan['pipe'], num_mp=plan['model'], num_dp=plan['data'])


def layer_table(plan: dict[str, Any]) -> list[dict[str, Any]]:
    """Global list of layers (3 per block: column, activation, row)."""
    out = []
    H, H2 = plan['hidden'], plan['inner']
    plain = set(plan.get('plain_stages') or [])
    for blk in range(plan['pipe'] * plan['blocks']):
        if blk // plan['blocks'] in plain:
            # a stage without any K-FAC layer (norms, plain linears, ...)
            out.append({'kind': 'plain', 'in': H, 'out': H})
            out.append({'kind': 'act'})
            out.append({'kind': 'plain', 'in': H, 'out': H})
            continue
        out.append({'kind': 'col', 'in': H, 'out': H2,
                    'bias': plan['bias_col']})
        out.append({'kind': 'act'})
        out.append({'kind': 'row', 'in': H2, 'out': H,
                    'bias': plan['bias_row']})
    return out


def full_weights(plan: dict[str, Any], idx: int, spec: dict[str, Any],
                 it: int) -> tuple[torch.Tensor, torch.Tensor | None]:
    """Logical (unsharded) parameters of layer idx before iteration `it`.

    Weights follow a seeded schedule instead of an optimizer so that the
    sharded and the unsharded run stay in lock-step by construction.
    """
    g = torch.Generator().manual_seed(_mix(plan['model_seed'], idx, 1))
    w = torch.randn(spec['out'], spec['in'], generator=g) / spec['in'] ** 0.5
    b = 0.1 * torch.randn(spec['out'], generator=g) if spec['bias'] else None
    g2 = torch.Generator().manual_seed(_mix(plan['model_seed'], idx, 2, it))
    w = w + 0.05 * torch.randn(w.shape, generator=g2)
    if b is not None:
        b = b + 0.05 * torch.randn(b.shape, generator=g2)
    return w, b


def batch(plan: dict[str, Any], stage: int, dpc: int, it: int,
          micro: int) -> tuple[torch.Tensor, torch.Tensor]:
    h = _mix(plan['data_seed'], stage, dpc, it, micro)
    g = torch.Generator().manual_seed(h)
    bs = 2 + h % 5
    # GPT-NeoX activations are [sequence, batch, hidden]; 'seq' absent/None
    # gives plain [batch, hidden]
    lead = (plan['seq'], bs) if plan.get('seq') else (bs,)
    x = torch.randn(*lead, plan['hidden'], generator=g)
    x = x * (1.0 + torch.arange(plan['hidden']) / plan['hidden'])
    y = torch.randn(*lead, plan['hidden'], generator=g)
    return x, y


# ---------------------------------------------------------------------------
# rank environment
# ---------------------------------------------------------------------------


class NeoxEnv:
    def __init__(self, plan: dict[str, Any], rank: int, store: Any,
                 inc: int, sim: core.Sim, fs: SimFS) -> None:
        from deepspeed.pipe import PipelineModule
        from kfac.gpt_neox.preconditioner import GPTNeoXKFACPreconditioner
        import kfac.gpt_neox.preconditioner as kp
        import kfac.layers.base as kb

        self.plan, self.rank, self.store, self.inc = plan, rank, store, inc
        self.sim, self.fs = sim, fs
        self.records: list[dict[str, Any]] = []
        self.local_violations: list[dict[str, Any]] = []
        self.phase = 'construct'
        self.kb = kb
        topo = topo_of(plan)
        self.topo = topo
        c = topo.get_coord(rank)
        self.stage, self.dpc, self.mpc = c.pipe, c.data, c.model
        # every rank creates every group, in one canonical order
        self.dpg = self.mpg = self.ppg = None
        with core.origin('workload'):
            for axis in ('data', 'model', 'pipe'):
                for members in topo.get_axis_comm_lists(axis):
                    h = dist.new_group(members)
                    if rank in members:
                        if axis == 'data':
                            self.dpg = h
                        elif axis == 'model':
                            self.mpg = h
                        else:
                            self.ppg = h
        table = layer_table(plan)
        self.table = table
        mp = plan['model']

        def mk(idx: int, spec: dict[str, Any]) -> Any:
            def build() -> torch.nn.Module:
                if spec['kind'] == 'act':
                    return torch.nn.Tanh()
                if spec['kind'] == 'plain':
                    lin = torch.nn.Linear(spec['in'], spec['out'])
                    g = torch.Generator().manual_seed(
                        _mix(plan['model_seed'], idx, 5))
                    with torch.no_grad():
                        lin.weight.copy_(torch.randn(
                            lin.weight.shape, generator=g) / spec['in'] ** .5)
                        lin.bias.zero_()
                    return lin
                w, b = full_weights(plan, idx, spec, 0)
                cls = ColumnParallelLinear if spec['kind'] == 'col' \
                    else RowParallelLinear
                return cls(w, b, self.mpg, self.mpc, mp)
            return build

        self.model = PipelineModule(
            [mk(i, s) for i, s in enumerate(table)], num_stages=plan['pipe'],
            topology=topo)
        self.local = {
            int(n): m for n, m in self.model.named_children()
            if table[int(n)]['kind'] in ('col', 'row')}
        self.caps: dict[str, dict[str, list]] = {}
        self.capturing = False
        for idx, m in self.local.items():
            m.register_forward_pre_hook(self._cap_a(str(idx)))
            m.register_full_backward_hook(self._cap_g(str(idx)))
        kw: dict[str, Any] = {}
        self.hp_objs: dict[str, Any] = {}
        for name in hpmod.HP_NAMES:
            spec = plan['hps'][name]
            if 'c' in spec and spec['c'] is None:
                kw[name] = None
                continue
            v = hpmod.build(name, spec)
            if isinstance(v, hpmod.Recording):
                self.hp_objs[name] = v
            kw[name] = v
        k = plan['kfac']
        kw.update(
            accumulation_steps=plan['acc'],
            allreduce_bucket_cap_mb=k['bucket_cap_mb'],
            assignment_strategy=k['assignment_strategy'],
            compute_eigenvalue_outer_product=k['prediv'],
            symmetry_aware=k['symmetry_aware'],
            update_factors_in_hook=plan['hook'],
            data_parallel_group=self.dpg, model_parallel_group=self.mpg,
            pipeline_parallel_group=self.ppg,
            factor_checkpoint_dir=k.get('ckpt_dir'),
        )
        for dk in ('factor_dtype', 'inv_dtype'):
            if k.get(dk):
                kw[dk] = getattr(torch, k[dk])
        # loss scaling (AMP-style): a power-of-two scale that changes from
        # iteration to iteration; K-FAC is handed the callable and must see
        # exactly the unscaled output gradients
        self.loss_scale: float | None = None
        if plan.get('loss_scale'):
            kw['grad_scaler'] = lambda: self.loss_scale
        with warnings.catch_warnings():
            warnings.simplefilter('ignore')
            self.pre = GPTNeoXKFACPreconditioner(self.model, **kw)
        self.kp = kp
        asg = find_instances(self.pre, __import__(
            'kfac.assignment', fromlist=['x']).WorkAssignment)
        self.assignment = asg[0]
        init = {'op': 'init', 'inc': inc, 'coord': (c.pipe, c.data, c.model),
                'layers': sorted(self.local),
                'inv': {str(i): self.assignment.inv_worker(str(i), 'A')
                        for i in self.local},
                'views': {str(i): {
                    'fw': self.assignment.factor_worker(str(i), 'A'),
                    'src': self.assignment.src_grad_worker(str(i)),
                    'gw': self.assignment.is_grad_worker(str(i))}
                    for i in self.local}}
        self.records.append(init)
        self.cur_it = 0
        self.has_factors = False
        if inc > 0:
            self.phase = 'restore'
            self._restore()
        self.phase = 'ops'

    def bad(self, clause: str, **d: Any) -> None:
        self.local_violations.append(
            {'clause': clause, 'rank': self.rank, 'inc': self.inc, **d})

    def _cap_a(self, name: str) -> Any:
        def hook(mod: Any, inp: Any) -> None:
            if self.capturing:
                self.caps.setdefault(name, {'a': [], 'g': []})['a'].append(
                    inp[0].detach().clone())
        return hook

    def _cap_g(self, name: str) -> Any:
        def hook(mod: Any, gi: Any, go: Any) -> None:
            if self.capturing:
                g = go[0] if isinstance(go, tuple) else go
                g = g.detach().clone()
                if self.loss_scale is not None:
                    g = g / self.loss_scale  # exact: power of two
                self.caps.setdefault(name, {'a': [], 'g': []})['g'].append(g)
        return hook

    def _set_weights(self, it: int) -> None:
        mp = self.plan['model']
        with torch.no_grad():
            for idx, m in self.local.items():
                spec = self.table[idx]
                w, b = full_weights(self.plan, idx, spec, it)
                if spec['kind'] == 'col':
                    n = w.shape[0] // mp
                    m.weight.copy_(w[self.mpc * n:(self.mpc + 1) * n])
                    if b is not None:
                        m.bias.copy_(b[self.mpc * n:(self.mpc + 1) * n])
                else:
                    n = w.shape[1] // mp
                    m.weight.copy_(w[:, self.mpc * n:(self.mpc + 1) * n])
                    if b is not None:
                        m.bias.copy_(b)

    # -- restore ----------------------------------------------------------
    def _restore(self) -> None:
        ck = self.plan['_boot_ckpt']
        rec: dict[str, Any] = {'op': 'restore', 'inc': self.inc,
                               'had_ckpt': ck is not None}
        self.records.append(rec)
        if ck is None:
            return
        rop = self.plan['_restart_op']
        ci = rop.get('compute_inverses', True)
        sd = torch.load(io.BytesIO(ck['kfac']), weights_only=False)
        with warnings.catch_warnings(record=True) as wl:
            warnings.simplefilter('always')
            try:
                self.pre.load_state_dict(sd, compute_inverses=ci)
            except core.SimAbort:
                raise
            except Exception as e:  # noqa: BLE001
                self.bad('C18.load_raised', error=repr(e),
                         tb=traceback.format_exc()[-1500:])
                raise
        rec['load_warnings'] = [str(w.message) for w in wl]
        rec['compute_inverses'] = ci
        self.has_factors = not (rop.get('wipe_dir')
                                and self.plan['kfac'].get('ckpt_dir'))
        # every factor worker holds exactly the saved factors of its layers
        saved_layers = torch.load(io.BytesIO(ck['kfac']),
                                  weights_only=False).get('layers')
        d = self.plan['kfac'].get('ckpt_dir')
        for layer in find_instances(self.pre, self.kb.KFACBaseLayer):
            mod = layer.module.module
            for i, m in self.local.items():
                if m is not mod or self.assignment.factor_worker(
                        str(i), 'A') != self.rank:
                    continue
                if d:
                    blob = self.fs.files.get(f'{d.rstrip("/")}/{i}')
                    want = None if blob is None else torch.load(
                        io.BytesIO(blob), weights_only=False)
                else:
                    want = None if saved_layers is None \
                        else saved_layers.get(str(i))
                if want is None:
                    continue
                got = layer.state_dict()
                self.sim.probe('restored_factor_checked')
                for fk in ('A', 'G'):
                    if want[fk] is None:
                        continue
                    if got[fk] is None or got[fk].dtype != want[fk].dtype \
                            or not torch.equal(got[fk], want[fk]):
                        self.bad('C18.factor_not_restored', layer=i,
                                 factor=fk)
        if self.pre.steps != ck['steps']:
            self.bad('C18.steps_not_restored', got=self.pre.steps,
                     want=ck['steps'])

    # -- operations -------------------------------------------------------
    def run_ops(self, ops: list[tuple[int, dict[str, Any]]]) -> None:
        for i, op in ops:
            rec: dict[str, Any] = {'op': op['op'], 'i': i, 'inc': self.inc}
            self.records.append(rec)
            self.phase = op['op']
            getattr(self, 'op_' + op['op'])(op, rec)
            rec['done'] = True

    def op_nop(self, op: dict[str, Any], rec: dict[str, Any]) -> None:
        return

    def op_crash_arm(self, op: dict[str, Any], rec: dict[str, Any]) -> None:
        if self.sim.cfg.crash_at_event is None:
            self.sim.cfg.crash_at_event = self.sim.n_events + op['events']

    def op_train(self, op: dict[str, Any], rec: dict[str, Any]) -> None:
        plan, pre = self.plan, self.pre
        it = op['it']
        rec['it'] = it
        rec['steps_before'] = pre.steps
        for r in self.hp_objs.values():
            r.calls.clear()
        self._set_weights(it)
        self.model.train()
        self.model.zero_grad(set_to_none=True)
        self.caps = {}
        rec['caps'] = self.caps
        self.capturing = True
        acc = plan['acc']
        if plan.get('loss_scale'):
            self.loss_scale = float(plan['loss_scale']) * 2.0 ** (it % 3)
            self.sim.probe('neox_loss_scaling')
        for micro in range(acc):
            x, y = batch(plan, self.stage, self.dpc, it, micro)
            out = self.model(x)
            loss = plan['loss_gain'] * 0.5 * ((out - y) ** 2).sum() / (
                out.shape[0] ** 0.5) / acc
            if self.loss_scale is not None:
                loss = loss * self.loss_scale
            loss.backward()
        self.capturing = False
        params = [p for p in self.model.parameters() if p.grad is not None]
        if self.loss_scale is not None:
            with torch.no_grad():
                for p in params:
                    p.grad.div_(self.loss_scale)
        if plan['data'] > 1:
            with torch.no_grad():
                flat = torch.cat([p.grad.reshape(-1) for p in params])
                with core.origin('workload'):
                    dist.all_reduce(flat, group=self.dpg)
                flat.div_(plan['data'])
                o = 0
                for p in params:
                    n = p.grad.numel()
                    p.grad.copy_(flat[o:o + n].view_as(p.grad))
                    o += n
        rec['D'] = self._shards()
        rec['weights_before'] = {
            str(i): _bytes(m.weight) for i, m in self.local.items()}
        log0 = len(self.sim.log)
        pre.step()
        rec['steps_after'] = pre.steps
        rec['hp_calls'] = {k: list(v.calls) for k, v in self.hp_objs.items()}
        rec['G'] = self._shards()
        self.has_factors = True
        for i, m in self.local.items():
            if _bytes(m.weight) != rec['weights_before'][str(i)]:
                self.bad('C10.param_changed_by_step', layer=i)
        me = self.rank
        rec['traffic'] = [e for e in self.sim.log[log0:]
                          if len(e) > 8 and e[1] == me and e[8] == 'kfac']
        if plan.get('read_factors') or op.get('read_factors'):
            rec['state'] = self._read_state()

    def _shards(self) -> dict[str, Any]:
        out = {}
        for i, m in self.local.items():
            out[str(i)] = {
                'w': m.weight.grad.detach().clone(),
                'b': None if m.bias is None else m.bias.grad.detach().clone(),
            }
        return out

    def _own_factors(self) -> dict[str, Any]:
        """Factors of the layers this rank is the inverse worker of."""
        own = {}
        for layer in find_instances(self.pre, self.kb.KFACBaseLayer):
            mod = layer.module.module
            for i, m in self.local.items():
                if m is mod and self.assignment.inv_worker(
                        str(i), 'A') == self.rank:
                    sd = layer.state_dict()
                    own[str(i)] = {
                        k: (None if v is None else v.detach().clone())
                        for k, v in sd.items()}
        return own

    def _read_state(self) -> dict[str, Any]:
        # the library call comes first: reading the layers ourselves would
        # await pending factor futures and hide code that forgets to
        sd = self.pre.state_dict()
        own = self._own_factors()
        out: dict[str, Any] = {'steps': sd['steps'], 'own': own,
                               'has_layers': 'layers' in sd}
        if 'layers' in sd:
            out['layers'] = {
                n: {k: (None if v is None else v.detach().clone())
                    for k, v in f.items()}
                for n, f in sd['layers'].items()}
        out['consts'] = {k: sd[k] for k in hpmod.HP_NAMES if k in sd}
        out['_sd'] = sd
        return out

    def op_save(self, op: dict[str, Any], rec: dict[str, Any]) -> None:
        if not self.has_factors:
            # GPT-NeoX state_dict() asserts that factors exist; a checkpoint
            # before the first factor update is outside the domain (DESIGN 0)
            self.sim.probe('save_skipped_no_factors_yet')
            rec['skipped'] = True
            return
        st = self._read_state()
        sd = st.pop('_sd')
        rec['state'] = st
        rec['saved'] = True
        # the outer framework (DeepSpeed) declares a checkpoint complete
        # only after every rank returned from state_dict()
        mine = all(f['A'] is not None and f['G'] is not None
                   for f in st['own'].values())
        flags = [None] * (self.plan['pipe'] * self.plan['data']
                          * self.plan['model'])
        with core.origin('workload'):
            dist.all_gather_object(flags, mine)
        if not all(flags):
            # taken before the first factor update: not a resumable state,
            # the simulated user keeps the previous checkpoint (see train.py)
            self.sim.probe('save_skipped_no_factors_yet')
            rec['skipped'] = True
            return
        if self.rank == 0:
            rec['fs_files'] = dict(self.fs.files)
            b = io.BytesIO()
            torch.save(sd, b)
            self.store.ckpt = {
                'kfac': b.getvalue(), 'op_index': rec['i'], 'inc': self.inc,
                'steps': sd['steps'], 'fs': self.fs.snapshot(),
            }
            self.store.n_saves += 1
        self.sim.probe('checkpoint_saved')


# ---------------------------------------------------------------------------
# execution
# ---------------------------------------------------------------------------


class Store:
    def __init__(self) -> None:
        self.ckpt: dict[str, Any] | None = None
        self.n_saves = 0


def execute(plan: dict[str, Any], tapes: Any = None) -> dict[str, Any]:
    import kfac.gpt_neox.preconditioner as kp

    torch.set_num_threads(1)
    store = Store()
    fs = SimFS()
    incs = split_incarnations(plan['ops'])
    out: dict[str, Any] = {'incs': [], 'status': 'ok'}
    s = plan['sim']
    world = plan['pipe'] * plan['data'] * plan['model']
    real_os, real_save, real_load = kp.os, torch.save, torch.load

    def sim_save(obj: Any, f: Any, *a: Any, **k: Any) -> Any:
        if isinstance(f, str) and f.startswith('/simfs/'):
            b = io.BytesIO()
            real_save(obj, b)
            _fs_yield(fs)
            fs.files[f] = b.getvalue()
            return None
        return real_save(obj, f, *a, **k)

    def sim_load(f: Any, *a: Any, **k: Any) -> Any:
        if isinstance(f, str) and f.startswith('/simfs/'):
            _fs_yield(fs)
            return real_load(io.BytesIO(fs.files[f]), weights_only=False)
        return real_load(f, *a, **k)

    for k, inc in enumerate(incs):
        if tapes is not None:
            chooser: Any = sched.TapeChooser(
                tapes[k] if k < len(tapes) else [])
        else:
            chooser = sched.PolicyChooser(
                random.Random(s['sched_seed'] * 1000003 + k), s['policy'],
                world)
        cfg = core.SimCfg(poison=s.get('poison', False),
                          latency=s.get('latency', 0.0),
                          fifo=not s.get('unordered', False),
                          local_size=s.get('local_size'))
        sim = core.Sim(world, chooser, cfg)
        p2 = dict(plan)
        p2['_restart_op'] = inc['restart_op']
        p2['_boot_ckpt'] = store.ckpt
        if k > 0:
            fs.restore(store.ckpt['fs'] if store.ckpt else None)
            if inc['restart_op'].get('wipe_dir'):
                fs.restore(None)
                sim.fault('checkpoint_dir_missing')
        envs: dict[int, NeoxEnv] = {}

        def prog(rank: int, p2: Any = p2, inc: Any = inc, k: int = k,
                 sim: Any = sim, envs: Any = envs) -> Any:
            env = NeoxEnv.__new__(NeoxEnv)
            envs[rank] = env
            env.records = []
            env.local_violations = []
            env.phase = 'construct'
            env.__init__(p2, rank, store, k, sim, fs)
            env.run_ops(inc['ops'])

        kp.os = FakeOS(fs)
        torch.save, torch.load = sim_save, sim_load
        try:
            with core.patched():
                status = sim.run(prog)
        finally:
            kp.os = real_os
            torch.save, torch.load = real_save, real_load
        res = {
            'status': status, 'violations': sim.violations,
            'local_violations': [
                v for r in sorted(envs) for v in envs[r].local_violations],
            'probes': sim.probes, 'faults': sim.fault_counts,
            'n_actions': sim.n_actions, 'n_events': sim.n_events,
            'multi_enabled': sim.multi_enabled, 'sim_time': sim.now,
            'decisions': sim.decisions, 'log': sim.log,
            'deadlock': sim.deadlock_info,
            'rank_errors': {
                r.idx: {'error': repr(r.error), 'tb': r.error_tb[-3000:],
                        'phase': getattr(envs.get(r.idx), 'phase', '?')}
                for r in sim.ranks if r.error is not None},
            'pending': sim.pending_ops() if status == 'ok' else [],
            'open_futures': sorted(
                getattr(f, '_sim_label', 'future')
                for f in sim.open_futures.values())
            if status == 'ok' else [],
            'records': {r: envs[r].records for r in sorted(envs)},
            'event_digest': sim.event_digest(),
            'restart_op': inc['restart_op'],
            'ckpt_op_index': None if store.ckpt is None
            else store.ckpt['op_index'],
            'ckpt_inc': None if store.ckpt is None else store.ckpt['inc'],
            'fs_files': sorted(fs.files),
        }
        out['incs'].append(res)
        if status not in ('ok', 'crash'):
            out['status'] = status
            break
    return out


# ---------------------------------------------------------------------------
# generator
# ---------------------------------------------------------------------------


def gen_neox_plan(rng: random.Random, tier: str, *, restarts: float,
                  max_world: int = 8) -> dict[str, Any]:
    from simkfac import gen

    cap = max_world if tier == 'quick' else 16
    while True:
        pp = rng.choice([1, 1, 2])
        dp = rng.choice([1, 2, 2, 3])
        mp = rng.choice([1, 2, 2, 4])
        if pp * dp * mp <= cap:
            break
    hps = gen.gen_hps(rng, callables=0.2, clip_none=0.1)
    for spec in hps.values():
        if spec.get('f') == 'ext':
            spec['f'] = 'cycle'
    if rng.random() < 0.45:
        hps['kl_clip'] = {'c': 1e6}
    acc = rng.choice([1, 1, 2])
    hook = rng.random() < 0.6
    ops = None
    while ops is None:
        ops = gen.gen_ops(rng, hps, {}, pp * dp * mp, max_ops=7,
                          restarts=restarts, extras=0.0, acc=acc, hook=hook)
    clean = []
    for op in ops:
        op = {k: v for k, v in op.items()
              if k not in ('reset_after', 'zero', 'try_bad', 'ranks',
                           'include_factors')}
        clean.append(op)
    ckpt_dir = '/simfs/ckpt' if rng.random() < 0.4 else None
    if ckpt_dir:
        for op in clean:
            if op['op'] == 'restart' and rng.random() < 0.15:
                # F9: the checkpoint directory is gone on the new node; the
                # load must warn and skip, and the job is only resumable if
                # the next step updates factors and refreshes
                op['wipe_dir'] = True
                op['compute_inverses'] = False
                hps['factor_update_steps'] = {'c': 1}
                hps['inv_update_steps'] = {'c': 1}
    plan = {
        'kind': 'neox', 'pipe': pp, 'data': dp, 'model': mp,
        'hidden': mp * rng.randint(1, 3) if mp > 1 else rng.randint(2, 6),
        'inner': mp * rng.randint(1, 3) if mp > 1 else rng.randint(2, 6),
        # 5+ blocks give layer names where one is a suffix of another
        # ('2' and '12'), which name-matching code must not confuse
        'blocks': rng.choice([1, 1, 2, 3, 5, 6] if pp == 1
                             else [1, 1, 2, 3]),
        'plain_stages': [rng.randrange(pp)] if pp > 1
        and rng.random() < 0.3 else [],
        'bias_col': rng.random() < 0.6, 'bias_row': rng.random() < 0.6,
        'seq': rng.choice([None, None, 1, 2, 3]),
        'hps': hps, 'acc': acc, 'hook': hook,
        'loss_gain': rng.choice([1.0, 3.0]),
        # derived, not drawn (older seeds keep their choice tape)
        'loss_scale': [None, 8.0, None, 64.0][(pp + 3 * dp + 5 * mp + acc
                                               + len(clean)) % 4],
        'kfac': {
            # from 'every tensor oversized' over 'a few factors per
            # bucket' to 'everything in one bucket'
            'bucket_cap_mb': rng.choice([0, 1e-4, 3e-4, 6e-4, 1.5e-3, 4e-3,
                                         25.0]),
            'assignment_strategy': rng.choice(['compute', 'memory']),
            'prediv': False,
            'symmetry_aware': rng.random() < 0.4,
            'ckpt_dir': ckpt_dir,
            'factor_dtype': rng.choice([None] * 8 + ['float64', 'bfloat16']),
            'inv_dtype': rng.choice([None] * 5 + ['float64']),
        },
        'read_factors': rng.random() < 0.5,
        'model_seed': rng.randrange(1 << 30),
        'data_seed': rng.randrange(1 << 30),
        'ops': clean,
        'sim': {'policy': rng.choice(sched.POLICIES),
                'poison': rng.random() < 0.5,
                'unordered': rng.random() < 0.3,
                'latency': rng.choice([0.0, 1e-4]),
                'sched_seed': rng.randrange(1 << 30),
                # ranks per node of the launcher (None: variables unset)
                'local_size': rng.choice([None, None, 1, 2, 4])},
    }
    if plan['hidden'] < 2:
        plan['hidden'] = 2 * mp
    return plan
