"""RefKFAC: executable reference written from the property statements.

float64, single process, dense Kronecker solves, statistics recomputed from
raw activations / output gradients with F.unfold.  Nothing here imports kfac.
"""

from __future__ import annotations

import math
from typing import Any

import torch
import torch.nn.functional as F

from simkfac import hp as hpmod

F64 = torch.float64
EPS = {
    'float64': 2.0 ** -52, 'float32': 2.0 ** -23, 'bfloat16': 2.0 ** -7,
    'float16': 2.0 ** -10,
}
C_SOLVE = 64.0
C_DIFF = 16.0
C_FACTOR = 32.0
VACUOUS = 0.2


def layer_info(m: torch.nn.Module, kind: str) -> dict[str, Any]:
    info: dict[str, Any] = {
        'kind': kind, 'bias': getattr(m, 'bias', None) is not None,
        'out': m.weight.shape[0],
    }
    if kind == 'conv':
        info.update(k=tuple(m.kernel_size), s=tuple(m.stride),
                    p=tuple(m.padding))
    return info


def second_moment_a(info: dict[str, Any], x: torch.Tensor) -> torch.Tensor:
    x = x.to(F64)
    if info['kind'] == 'linear':
        rows = x.reshape(-1, x.shape[-1])
        if info['bias']:
            rows = torch.cat([rows, rows.new_ones(rows.shape[0], 1)], 1)
        return rows.t() @ rows / rows.shape[0]
    cols = F.unfold(x, info['k'], padding=info['p'], stride=info['s'])
    b, ckk, L = cols.shape
    rows = cols.permute(0, 2, 1).reshape(b * L, ckk)
    if info['bias']:
        rows = torch.cat([rows, rows.new_ones(rows.shape[0], 1)], 1)
    rows = rows / L
    return rows.t() @ rows / rows.shape[0]


def second_moment_g(info: dict[str, Any], g: torch.Tensor,
                    loss_scale: float | None) -> torch.Tensor:
    g = g.to(F64)
    if loss_scale is not None:
        g = g / loss_scale
    if info['kind'] == 'linear':
        rows = g.reshape(-1, g.shape[-1])
        return rows.t() @ rows / rows.shape[0]
    b, c, h, w = g.shape
    rows = g.permute(0, 2, 3, 1).reshape(b * h * w, c) / (h * w)
    return rows.t() @ rows / rows.shape[0]


def psd(m: torch.Tensor) -> torch.Tensor:
    m = (m + m.t()) / 2
    w, q = torch.linalg.eigh(m)
    return (q * w.clamp(min=0.0)) @ q.t()


def solve(method: str, A: torch.Tensor, G: torch.Tensor, d: float,
          D: torch.Tensor) -> tuple[torch.Tensor, float]:
    """Dense solve of the damped Kronecker system; returns (V, cond)."""
    A = A.to(F64)
    G = G.to(F64)
    D = D.to(F64)
    if method == 'inverse':
        Ad = A + d * torch.eye(A.shape[0], dtype=F64)
        Gd = G + d * torch.eye(G.shape[0], dtype=F64)
        K = torch.kron(Gd, Ad.t().contiguous())
        # conditioning as felt by inv(A+dI), inv(G+dI) in float32
        cond = float(torch.linalg.cond(Ad) * torch.linalg.cond(Gd))
    else:
        Ap, Gp = psd(A), psd(G)
        K = torch.kron(Gp, Ap.t().contiguous())
        K = K + d * torch.eye(K.shape[0], dtype=F64)
        la = float(torch.linalg.eigvalsh(Ap).max().clamp(min=0))
        lg = float(torch.linalg.eigvalsh(Gp).max().clamp(min=0))
        cond = (la * lg + d) / d
    v = torch.linalg.solve(K, D.reshape(-1))
    return v.reshape(D.shape), cond


def clip_scale(kl: float | None, lr: float, vds: list[float]) -> float:
    if kl is None:
        return 1.0
    s = sum(vd * lr ** 2 for vd in vds)
    if s == 0.0:
        return 1.0
    return min(1.0, math.sqrt(kl / abs(s)))


class RefKFAC:
    """State machine of C04/C05/C09/C19."""

    def __init__(self, infos: dict[str, dict[str, Any]],
                 hps: dict[str, dict[str, Any]], method: str, prediv: bool,
                 ) -> None:
        self.infos = infos
        self.hps = {k: dict(v) for k, v in hps.items()}
        self.method = method  # 'eigen' | 'inverse'
        self.prediv = prediv and method == 'eigen'
        self.steps = 0
        self.A: dict[str, torch.Tensor | None] = {n: None for n in infos}
        self.G: dict[str, torch.Tensor | None] = {n: None for n in infos}
        self.snap: dict[str, Any] = {n: None for n in infos}
        self.n_updates = 0

    def clone(self) -> 'RefKFAC':
        c = RefKFAC(self.infos, self.hps, self.method, self.prediv)
        c.steps = self.steps
        c.A = dict(self.A)
        c.G = dict(self.G)
        c.snap = dict(self.snap)
        c.n_updates = self.n_updates
        c.diverged = getattr(self, 'diverged', False)
        c.ext_it = getattr(self, 'ext_it', 0)
        return c

    # hyper-parameters ---------------------------------------------------
    def hp(self, name: str, step: int | None = None) -> Any:
        s = self.hps[name]
        if 'c' in s:
            return s['c']
        if s['f'] == 'ext':
            # value of the external state at the iteration being processed
            return s['vals'][getattr(self, 'ext_it', 0) % len(s['vals'])]
        return hpmod.ref_eval(s, self.steps if step is None else step)

    def sched_step(self, lambdas: dict[str, dict[str, Any]],
                   step: int | None) -> None:
        at = self.steps if step is None else step
        for name, spec in lambdas.items():
            f = hpmod.ref_eval(spec, at)
            if name in hpmod.INT_HPS:
                self.hps[name]['c'] = int(self.hps[name]['c'] * f)
            else:
                self.hps[name]['c'] = self.hps[name]['c'] * f

    # steps ----------------------------------------------------------------
    def is_factor_step(self) -> bool:
        return self.steps % self.hp('factor_update_steps') == 0

    def is_inv_step(self) -> bool:
        return self.steps % self.hp('inv_update_steps') == 0

    def update_factors(self, moments: dict[str, tuple]) -> None:
        """moments[name] = (M_A, M_G), already averaged over micro/ranks."""
        alpha = self.hp('factor_decay')
        for n, (ma, mg) in moments.items():
            if ma is not None:
                prev = self.A[n] if self.A[n] is not None else torch.eye(
                    ma.shape[0], dtype=F64)
                self.A[n] = alpha * prev + (1 - alpha) * ma
            if mg is not None:
                prev = self.G[n] if self.G[n] is not None else torch.eye(
                    mg.shape[0], dtype=F64)
                self.G[n] = alpha * prev + (1 - alpha) * mg
        self.n_updates += 1

    def refresh(self) -> None:
        d = self.hp('damping')
        for n in self.infos:
            self.snap[n] = (self.A[n], self.G[n], d)

    def precondition(self, D: dict[str, torch.Tensor],
                     ) -> tuple[dict[str, torch.Tensor], float, float]:
        """-> (nu*V per layer, nu, worst condition number)."""
        d_now = self.hp('damping')
        V: dict[str, torch.Tensor] = {}
        vds = []
        worst = 1.0
        for n in self.infos:
            if self.snap[n] is None:
                raise RuntimeError('reference has no second-order snapshot')
            A, G, d_snap = self.snap[n]
            d = d_now if (self.method == 'eigen' and not self.prediv) \
                else d_snap
            v, cond = solve(self.method, A, G, d, D[n])
            worst = max(worst, cond)
            V[n] = v
            vds.append(float((v * D[n].to(F64)).sum()))
        nu = clip_scale(self.hp('kl_clip'), self.hp('lr'), vds)
        self.last_vds = vds
        self.last_V = V
        return {n: nu * v for n, v in V.items()}, nu, worst

    def step(self, moments: dict[str, tuple] | None,
             D: dict[str, torch.Tensor]) -> dict[str, Any]:
        """One training iteration as the statements describe it."""
        info: dict[str, Any] = {'step': self.steps}
        info['factor_step'] = self.is_factor_step()
        info['inv_step'] = self.is_inv_step()
        if info['factor_step'] and moments is not None:
            self.update_factors(moments)
        if info['inv_step']:
            self.refresh()
        grads, nu, cond = self.precondition(D)
        info.update(grads=grads, nu=nu, cond=cond, vds=self.last_vds,
                    V=self.last_V, lr=self.hp('lr'), kl=self.hp('kl_clip'),
                    damping=self.hp('damping'))
        self.steps += 1
        return info

    # checkpoints --------------------------------------------------------
    def load(self, steps: int, consts: dict[str, Any],
             factors: dict[str, dict[str, torch.Tensor]] | None,
             compute_inverses: bool) -> None:
        self.steps = steps
        for k, v in consts.items():
            if 'c' in self.hps[k]:
                self.hps[k]['c'] = v
        if factors is not None:
            for n in self.infos:
                a, g = factors[n]['A'], factors[n]['G']
                self.A[n] = None if a is None else a.to(F64)
                self.G[n] = None if g is None else g.to(F64)
        else:
            for n in self.infos:
                self.A[n] = None
                self.G[n] = None
        if compute_inverses and factors is not None and all(
                self.A[n] is not None and self.G[n] is not None
                for n in self.infos):
            self.refresh()
        else:
            for n in self.infos:
                self.snap[n] = None


def fp16_range_ok(world: int, caps: dict[str, Any]) -> bool:
    """Can the batch second moments of these activations / output gradients
    be formed, symmetrised (x + x^T) and summed over `world` ranks inside
    the float16 range?  A crude upper bound with a safety factor of two: if
    it fails, a float16 factor may legitimately overflow and the step says
    nothing about the properties (like a diverged run)."""
    worst = 0.0
    for c in caps.values():
        for t in c['a'] + c['g']:
            t = t.detach().to(F64)
            if t.dim() == 4:
                v = float(t.abs().max()) ** 2 * t.shape[2] * t.shape[3]
            else:
                r = t.reshape(-1, t.shape[-1])
                v = float((r * r).mean(0).max()) if r.numel() else 0.0
            worst = max(worst, v)
    return 4.0 * world * max(worst, 1.0) < 65504.0 / 2


def rel_err(got: torch.Tensor, want: torch.Tensor) -> float:
    got = got.to(F64)
    want = want.to(F64)
    if not bool(torch.isfinite(got).all()):
        return float('inf')
    den = float(want.norm())
    num = float((got - want).norm())
    if den == 0.0:
        return 0.0 if num == 0.0 else float('inf')
    return num / den
