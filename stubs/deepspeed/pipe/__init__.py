"""PipelineModule stand-in: builds only the layers of the caller's stage and
registers them under their *global* layer index, as DeepSpeed does."""

from __future__ import annotations

import torch
import torch.distributed as dist


class LayerSpec:
    def __init__(self, typename, *args, **kwargs):
        self.typename = typename
        self.args = args
        self.kwargs = kwargs

    def build(self):
        return self.typename(*self.args, **self.kwargs)


def partition_uniform(num_items, num_parts):
    parts = [0] * (num_parts + 1)
    if num_items <= num_parts:
        for p in range(num_parts + 1):
            parts[p] = min(p, num_items)
        return parts
    chunk = num_items // num_parts
    residual = num_items - chunk * num_parts
    parts = [p * chunk for p in range(num_parts + 1)]
    for i in range(residual):
        parts[-(i + 1)] += residual - i
    return parts


class PipelineModule(torch.nn.Module):
    def __init__(self, layers, num_stages=None, topology=None, **kwargs):
        super().__init__()
        if num_stages is None and topology is None:
            raise RuntimeError('must provide num_stages or topology')
        self._topo = topology
        self.num_stages = num_stages if num_stages is not None \
            else topology.get_dim('pipe')
        self.global_rank = dist.get_rank() if dist.is_initialized() else 0
        if topology is not None:
            self.stage_id = topology.get_coord(self.global_rank).pipe
        else:
            self.stage_id = 0
        self._layer_specs = list(layers)
        self.parts = partition_uniform(len(self._layer_specs),
                                       self.num_stages)
        self._local_start = self.parts[self.stage_id]
        self._local_stop = self.parts[self.stage_id + 1]
        self.forward_funcs = []
        for idx in range(self._local_start, self._local_stop):
            layer = self._layer_specs[idx]
            if isinstance(layer, LayerSpec):
                layer = layer.build()
            elif not isinstance(layer, torch.nn.Module) and callable(layer):
                layer = layer()
            self.forward_funcs.append(layer)
            if isinstance(layer, torch.nn.Module):
                self.add_module(str(idx), layer)

    def topology(self):
        return self._topo

    def forward(self, x):
        for f in self.forward_funcs:
            x = f(x)
        return x
