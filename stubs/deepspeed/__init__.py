"""Minimal stand-in for DeepSpeed (not installable offline on this image).

Only what kfac.gpt_neox imports: deepspeed.pipe.PipelineModule and
deepspeed.runtime.pipe.topology.PipeModelDataParallelTopology, re-implemented
from their documented behaviour.  Used by /verif only.
"""
__version__ = '0.0-verif-stub'


def init_distributed(*a, **k):  # noqa: D103
    return None
