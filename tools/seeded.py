"""Re-runs every kept seeded change (/verif/seeded/*) against its check.

A scratch copy of /repo/kfac is patched (outside /repo and /verif, removed
afterwards) and the property's quick check is run with VERIF_REPO=<copy>.
Results: evidence/selftest_seeded.json
"""
import json
import os
import shutil
import subprocess
import sys
import tempfile
import time

HERE = os.path.dirname(os.path.dirname(os.path.abspath(__file__)))
args = sys.argv[1:]
seeds = ['11']
if args and args[0] == '--seeds':
    seeds = args[1].split(',')
    args = args[2:]
only = set(args)
results = []
for name in sorted(os.listdir(os.path.join(HERE, 'seeded'))):
    d = os.path.join(HERE, 'seeded', name)
    if not os.path.isdir(d) or (only and name not in only):
        continue
    meta = json.load(open(os.path.join(d, 'meta.json')))
    pids = meta.get('checks') or [meta['property']]
    root = tempfile.mkdtemp(prefix='verif_seeded_')
    try:
        shutil.copytree('/repo/kfac', os.path.join(root, 'kfac'))
        pr = subprocess.run(['patch', '-p1', '-s', '-i',
                             os.path.join(d, 'patch.diff')], cwd=root,
                            capture_output=True, text=True)
        if pr.returncode:
            print(f'{name}: patch does not apply: {pr.stdout} {pr.stderr}')
            results.append({'seeded': name, 'error': 'patch'})
            continue
        for pid, sd in [(p_, s_) for p_ in pids for s_ in seeds]:
            t0 = time.time()
            env = dict(os.environ, VERIF_REPO=root, VERIF_SEED=sd)
            r = subprocess.run([os.path.join(HERE, 'check'), pid], env=env,
                               capture_output=True, text=True, cwd=HERE)
            caught = r.returncode == 1 and 'VIOLATION' in r.stdout
            first = next((x for x in r.stdout.splitlines()
                          if x.startswith('  clause=')), '')
            nviol = next((x.split('violations=')[1].split(',')[0]
                          for x in r.stdout.splitlines()
                          if 'violations=' in x), '?')
            results.append({'seeded': name, 'property': pid, 'seed': sd,
                            'violating_cases': nviol,
                            'caught': caught, 'exit': r.returncode,
                            'wall_s': round(time.time() - t0, 1),
                            'first': first[:200]})
            tag = 'CAUGHT' if caught else 'MISSED exit=%d' % r.returncode
            if not caught and meta.get('expected_caught') is False:
                tag = 'NOT CAUGHT (by decision, see meta.json)'
            print(f'{name:45s} {pid} seed={sd} cases={nviol} {tag} '
                  f'{first[:90]}', flush=True)
    finally:
        shutil.rmtree(root, ignore_errors=True)
with open(os.path.join(HERE, 'evidence', 'selftest_seeded.json'), 'w') as f:
    json.dump({'results': results}, f, indent=1)
