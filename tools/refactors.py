"""False-alarm guard: semantics-preserving edits under which every check must
stay green (exit 0).  Same mechanics as tools/mutants.py (scratch copy of
/repo/kfac, VERIF_REPO).  Results: evidence/selftest_refactors.json
"""
from __future__ import annotations

import argparse
import json
import os
import shutil
import subprocess
import sys
import tempfile
import time

HERE = os.path.dirname(os.path.dirname(os.path.abspath(__file__)))
TRAIN = ['C01', 'C02', 'C03', 'C04', 'C05', 'C09', 'C10', 'C13']

# (id, [(file, old, new, count or None)], checks)
REFACTORS = [
    ('forward_layer_order_in_step',
     [('kfac/base_preconditioner.py',
       'in reversed(list(self._layers.values())):',
       'in list(self._layers.values()):', None)], TRAIN),
    ('flush_after_every_factor',
     [('kfac/layers/base.py',
       "            group=group,\n        )\n\n    def reduce_g_factor",
       "            group=group,\n        )\n"
       "        self.tdc.flush_allreduce_buckets()\n\n    def reduce_g_factor",
       1)], TRAIN + ['C08']),
    ('float64_decomposition',
     [('kfac/layers/eigen.py', 'self.a_factor.to(torch.float32)',
       'self.a_factor.to(torch.float64)', None),
      ('kfac/layers/eigen.py', 'self.g_factor.to(torch.float32)',
       'self.g_factor.to(torch.float64)', None)], TRAIN),
    ('rename_private_factor_attribute',
     [('kfac/layers/base.py', 'self._a_factor', 'self._afactor_store', None),
      ('kfac/layers/base.py', 'self._g_factor', 'self._gfactor_store', None)],
     TRAIN),
    ('eigenvalues_broadcast_before_vectors',
     [('kfac/layers/eigen.py',
       "        self.qa = self.tdc.broadcast(  # type: ignore\n"
       "            self.qa,\n            src=src,\n            group=group,\n"
       "        )\n        if not self.prediv_eigenvalues:\n"
       "            assert self.da is not None\n"
       "            self.da = self.tdc.broadcast(  # type: ignore\n"
       "                self.da,\n                src=src,\n"
       "                group=group,\n            )",
       "        if not self.prediv_eigenvalues:\n"
       "            assert self.da is not None\n"
       "            self.da = self.tdc.broadcast(  # type: ignore\n"
       "                self.da,\n                src=src,\n"
       "                group=group,\n            )\n"
       "        self.qa = self.tdc.broadcast(  # type: ignore\n"
       "            self.qa,\n            src=src,\n            group=group,\n"
       "        )", 1)], TRAIN),
    # ('get_cov_divides_after_product' and 'inplace_factor_ema' used to be
    #  listed here. Both turned out NOT to preserve behaviour once the
    #  explored domain grew - the first overflows with float16 factors, the
    #  second writes into a checkpoint object that was loaded - and sub-agents
    #  independently submitted both as defects (seeded C04f/C10f, C09b/C05e/
    #  C04g). They are mutants now: tools/mutants.py.)
    ('await_factor_allreduce_in_hook',
     [('kfac/layers/base.py',
       "            group=group,\n        )\n\n    def reduce_g_factor",
       "            group=group,\n        )\n"
       "        if self.allreduce_method == AllreduceMethod.ALLREDUCE:\n"
       "            _ = self.a_factor  # bucketed futures resolve at flush\n"
       "\n    def reduce_g_factor", 1)], TRAIN),
    ('tracing_uses_fsum',
     [('kfac/tracing.py', 'out[fname] = sum(times)',
       'out[fname] = __import__("math").fsum(times)', 1)], ['C20']),
    ('triu_indices_cached_per_call',
     [('kfac/distributed.py',
       "    idxs = torch.triu_indices(\n        tensor.shape[0],\n"
       "        tensor.shape[1],\n        device=tensor.device,\n    )\n"
       "    return tensor[idxs[0], idxs[1]]",
       "    rows, cols = tensor.shape\n"
       "    mask = torch.ones(rows, cols, dtype=torch.bool,\n"
       "                      device=tensor.device).triu()\n"
       "    return tensor[mask]", 1)], ['C14', 'C08']),
]


def main() -> int:
    ap = argparse.ArgumentParser()
    ap.add_argument('--only')
    ap.add_argument('--cases', type=int, default=150)
    a = ap.parse_args()
    only = set(a.only.split(',')) if a.only else None
    results = []
    for rid, edits, checks in REFACTORS:
        if only and rid not in only:
            continue
        root = tempfile.mkdtemp(prefix='verif_ref_')
        try:
            shutil.copytree('/repo/kfac', os.path.join(root, 'kfac'))
            ok = True
            for file, old, new, count in edits:
                p = os.path.join(root, file)
                s = open(p).read()
                if old not in s or (count and s.count(old) != count):
                    print(f'{rid}: cannot apply to {file} '
                          f'({s.count(old)} occurrences)')
                    ok = False
                    break
                open(p, 'w').write(s.replace(old, new))
            if not ok:
                results.append({'refactor': rid, 'error': 'apply'})
                continue
            for pid in checks:
                t0 = time.time()
                env = dict(os.environ, VERIF_REPO=root, VERIF_SEED='5')
                r = subprocess.run([os.path.join(HERE, 'check'), pid,
                                    '--cases', str(a.cases)], env=env,
                                   capture_output=True, text=True, cwd=HERE)
                first = next((x for x in r.stdout.splitlines()
                              if x.startswith('  clause=')), '')
                results.append({'refactor': rid, 'property': pid,
                                'green': r.returncode == 0,
                                'exit': r.returncode,
                                'first': first[:300]})
                print(f'{rid:40s} {pid} '
                      f'{"green" if r.returncode == 0 else "ALARM exit=%d" % r.returncode}'
                      f' {time.time() - t0:5.1f}s {first[:140]}', flush=True)
        finally:
            shutil.rmtree(root, ignore_errors=True)
    out = {'results': results,
           'alarms': sum(1 for r in results if r.get('green') is False)}
    with open(os.path.join(HERE, 'evidence', 'selftest_refactors.json'),
              'w') as f:
        json.dump(out, f, indent=1)
    print('alarms:', out['alarms'])
    return 0


if __name__ == '__main__':
    sys.exit(main())
