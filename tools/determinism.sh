#!/bin/sh
# Cross-process determinism matrix: the same VERIF_SEED under different
# PYTHONHASHSEED values and worker counts must give identical evidence digests.
# usage: tools/determinism.sh [ids...]
cd "$(dirname "$0")/.."
ids="$@"; [ -z "$ids" ] && ids="C03 C05 C08 C09 C11 C20"
rc=0
for id in $ids; do
  ref=""
  for cfg in "0 16" "1 4" "12345 16" "777 1"; do
    set -- $cfg
    out=$(PYTHONHASHSEED=$1 VERIF_SEED=42 ./check $id --cases 48 --workers $2 2>&1)
    d=$(/venv/bin/python - <<PY
import json,hashlib
e=json.load(open('evidence/$id.json'))['coverage']
print(hashlib.sha256(json.dumps([e['evaluations'],e['distinct_event_digests'],e['distinct_collective_sequence_shapes'],e['scheduler_actions'],e['oracle_counters'],e['faults_fired']],sort_keys=True).encode()).hexdigest()[:16])
PY
)
    echo "$id hashseed=$1 workers=$2 digest=$d"
    [ -z "$ref" ] && ref=$d
    [ "$d" != "$ref" ] && { echo "MISMATCH $id"; rc=1; }
  done
done
exit $rc
