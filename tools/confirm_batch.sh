#!/bin/sh
# usage: tools/confirm_batch.sh PID[:check,check...] ...   -- compact confirmation of sub-agent changes
for spec in "$@"; do
  pid=${spec%%:*}; checks=$(echo "${spec#*:}" | tr ',' ' '); [ "$checks" = "$pid" ] || [ -n "$checks" ] || checks=$pid
  [ "$spec" = "$pid" ] && checks=$pid
  out=$(tools/confirm_seeded.sh $pid $checks 2>&1 | grep -v conda)
  suite=$(echo "$out" | grep -A1 "suite with change" | tail -1 | cut -c1-40)
  dw=$(echo "$out" | grep -A1 "demo with change" | tail -1)
  dwo=$(echo "$out" | grep -A1 "demo without change" | tail -1)
  echo "## $pid | suite: $suite | demo with: $dw | without: $dwo"
  echo "$out" | awk '/== check/{c=$3} /clause=/{ if(!seen[c]++) print "   " c " CAUGHT " substr($0,1,160)} /\] [0-9]+ cases/{ if($0 ~ /violations=0/) print "   " c " clean: " substr($0,1,120)}'
done
