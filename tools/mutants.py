"""Sensitivity self-test: seeded source mutations that must be detected.

Each mutant is applied to a scratch copy of /repo/kfac (outside /repo and
/verif, removed afterwards) and the listed quick checks are run against it
with VERIF_REPO=<copy>; every listed check must report a VIOLATION.

usage: tools/mutants.py [--only ID[,ID]] [--cases N] [--jobs J]
Results: evidence/selftest_mutants.json
"""

from __future__ import annotations

import argparse
import json
import os
import shutil
import subprocess
import sys
import tempfile
import time

HERE = os.path.dirname(os.path.dirname(os.path.abspath(__file__)))
REPO = '/repo'

# (id, file, old, new, properties whose quick check must catch it)
MUTANTS = [
    ('eigen_drop_damping', 'kfac/layers/eigen.py',
     '                + damping\n            )\n        self.grad',
     '                + 0.0 * damping\n            )\n        self.grad',
     ['C01', 'C05']),
    ('eigen_outer_swapped', 'kfac/layers/eigen.py',
     'self.dgda = 1 / (torch.outer(self.dg, self.da) + damping)',
     'self.dgda = 1 / (torch.outer(self.dg, self.da) + damping * 2)',
     ['C01']),
    ('inverse_no_damping_on_g', 'kfac/layers/inverse.py',
     "        g = self.g_factor + d\n",
     "        g = self.g_factor + 0 * d\n", ['C01', 'C05']),
    ('ema_swapped', 'kfac/layers/base.py',
     'self.a_factor = (alpha * self.a_factor) + ((1 - alpha) * a_new)',
     'self.a_factor = ((1 - alpha) * self.a_factor) + (alpha * a_new)',
     ['C04', 'C05']),
    ('skip_microbatch_division', 'kfac/layers/base.py',
     'self._g_batch = (1 / self._g_count) * self._g_batch',
     'self._g_batch = self._g_batch', ['C04']),
    ('average_by_world_not_group', 'kfac/distributed.py',
     "            t = future_.value()\n            if average:\n"
     "                t = (1 / get_world_size(group)) * t",
     "            t = future_.value()\n            if average:\n"
     "                t = (1 / get_world_size()) * t", ['C08']),
    ('hooks_at_step_plus_one', 'kfac/base_preconditioner.py',
     "        if not module.training:\n            return\n"
     "        if self.steps % self.factor_update_steps == 0:\n"
     "            name, layer = self._layers[module]\n"
     "            layer.save_layer_input(input_)",
     "        if not module.training:\n            return\n"
     "        if (self.steps + 1) % self.factor_update_steps == 0:\n"
     "            name, layer = self._layers[module]\n"
     "            layer.save_layer_input(input_)", ['C04', 'C05']),
    ('inv_update_off_by_one', 'kfac/base_preconditioner.py',
     'if self.steps % self.inv_update_steps == 0:',
     'if self.steps % self.inv_update_steps == 0 or self.steps == 1:',
     ['C05']),
    ('recompute_inverses_every_step', 'kfac/base_preconditioner.py',
     'if self.steps % self.inv_update_steps == 0:', 'if True:', ['C05']),
    ('broadcast_a_inv_from_g_worker', 'kfac/base_preconditioner.py',
     "                    layer.broadcast_a_inv(\n"
     "                        src=self._assignment.inv_worker(name, 'A'),\n"
     "                        group=self._assignment.grad_worker_group(name),\n"
     "                    )\n                if get_rank() == "
     "self._assignment.inv_worker(name, 'G'):\n"
     "                    layer.compute_g_inv(damping=self.damping)\n"
     "                if (\n                    self._assignment."
     "broadcast_inverses()\n                    and self._assignment."
     "is_grad_worker(name)\n                ):\n"
     "                    layer.broadcast_g_inv(",
     "                    layer.broadcast_a_inv(\n"
     "                        src=self._assignment.inv_worker(name, 'G'),\n"
     "                        group=self._assignment.grad_worker_group(name),\n"
     "                    )\n                if get_rank() == "
     "self._assignment.inv_worker(name, 'G'):\n"
     "                    layer.compute_g_inv(damping=self.damping)\n"
     "                if (\n                    self._assignment."
     "broadcast_inverses()\n                    and self._assignment."
     "is_grad_worker(name)\n                ):\n"
     "                    layer.broadcast_g_inv(", ['C03']),
    ('drop_grad_worker_guard_in_step', 'kfac/base_preconditioner.py',
     "                if (\n                    self._assignment."
     "broadcast_inverses()\n                    and self._assignment."
     "is_grad_worker(name)\n                ):\n"
     "                    layer.broadcast_a_inv(\n"
     "                        src=self._assignment.inv_worker(name, 'A'),\n"
     "                        group=self._assignment.grad_worker_group(name),\n"
     "                    )\n                if get_rank() == self._"
     "assignment.inv_worker(name, 'G'):\n"
     "                    layer.compute_g_inv(damping=self.damping)\n"
     "                if (\n                    self._assignment."
     "broadcast_inverses()\n                    and self._assignment."
     "is_grad_worker(name)\n                ):\n"
     "                    layer.broadcast_g_inv(\n"
     "                        src=self._assignment.inv_worker(name, 'G'),\n"
     "                        group=self._assignment.grad_worker_group(name),\n"
     "                    )\n            self._tdc.flush_allreduce_buckets()",
     "                if (\n                    self._assignment."
     "broadcast_inverses()\n                ):\n"
     "                    layer.broadcast_a_inv(\n"
     "                        src=self._assignment.inv_worker(name, 'A'),\n"
     "                        group=self._assignment.grad_worker_group(name),\n"
     "                    )\n                if get_rank() == self._"
     "assignment.inv_worker(name, 'G'):\n"
     "                    layer.compute_g_inv(damping=self.damping)\n"
     "                if (\n                    self._assignment."
     "broadcast_inverses()\n                ):\n"
     "                    layer.broadcast_g_inv(\n"
     "                        src=self._assignment.inv_worker(name, 'G'),\n"
     "                        group=self._assignment.grad_worker_group(name),\n"
     "                    )\n            self._tdc.flush_allreduce_buckets()",
     ['C03']),
    ('remove_first_flush', 'kfac/base_preconditioner.py',
     "        # Flush last allreduce bucket from forward/backward pass.\n"
     "        # Will be a no-op if bucketing was not used\n"
     "        self._tdc.flush_allreduce_buckets()\n",
     "", ['C03']),
    ('read_factor_without_wait', 'kfac/layers/base.py',
     "        if isinstance(self._a_factor, Future):\n"
     "            self._a_factor = cast(torch.Tensor, "
     "self._a_factor.wait())\n        return self._a_factor",
     "        if isinstance(self._a_factor, Future):\n"
     "            if not self._a_factor.done():\n"
     "                return None\n"
     "            self._a_factor = cast(torch.Tensor, "
     "self._a_factor.wait())\n        return self._a_factor",
     ['C04']),
    ('get_cov_divides_after_product', 'kfac/layers/utils.py',
     'cov_a = a.t() @ (a / scale)', 'cov_a = (a.t() @ a) / scale',
     ['C04', 'C10']),
    ('inplace_factor_ema_a', 'kfac/layers/base.py',
     'self.a_factor = (alpha * self.a_factor) + ((1 - alpha) * a_new)',
     'self.a_factor.mul_(alpha).add_((1 - alpha) * a_new)', ['C09']),
    ('skip_restoring_steps', 'kfac/base_preconditioner.py',
     "        self._steps = state_dict['steps']\n",
     "        self._steps = 0 * state_dict['steps']\n", ['C09']),
    ('clip_sqrt_dropped', 'kfac/base_preconditioner.py',
     'return min(1.0, math.sqrt(self.kl_clip / abs(vg_sum)))',
     'return min(1.0, self.kl_clip / abs(vg_sum))', ['C07']),
    ('clip_lr_not_squared', 'kfac/base_preconditioner.py',
     'vg_sum += (v1 * w * self.lr**2).sum().item()',
     'vg_sum += (v1 * w * self.lr).sum().item()', ['C07']),
    ('hybrid_broadcast_to_world', 'kfac/assignment.py',
     '        return self._grad_worker_groups[layer].group\n',
     '        return None\n', ['C03']),
    ('every_rank_computes_inverse', 'kfac/base_preconditioner.py',
     "                if get_rank() == self._assignment.inv_worker(name, "
     "'A'):\n                    layer.compute_a_inv(damping=self.damping)"
     "\n                if (\n                    self._assignment."
     "broadcast_inverses()\n                    and self._assignment."
     "is_grad_worker(name)\n                ):\n"
     "                    layer.broadcast_a_inv(\n"
     "                        src=self._assignment.inv_worker(name, 'A'),\n"
     "                        group=self._assignment.grad_worker_group(name),\n"
     "                    )\n                if get_rank() == self._"
     "assignment.inv_worker(name, 'G'):\n"
     "                    layer.compute_g_inv(damping=self.damping)\n"
     "                if (\n                    self._assignment."
     "broadcast_inverses()\n                    and self._assignment."
     "is_grad_worker(name)\n                ):\n"
     "                    layer.broadcast_g_inv(\n"
     "                        src=self._assignment.inv_worker(name, 'G'),\n"
     "                        group=self._assignment.grad_worker_group(name),\n"
     "                    )\n            self._tdc.flush_allreduce_buckets()",
     "                if self._assignment.is_grad_worker(name):\n"
     "                    layer.compute_a_inv(damping=self.damping)\n"
     "                    layer.compute_g_inv(damping=self.damping)\n"
     "            self._tdc.flush_allreduce_buckets()",
     ['C13']),
    ('triu_indices_offset', 'kfac/distributed.py',
     "    idxs = torch.triu_indices(rows, rows, 1, device=dst_tensor.device)"
     "\n    dst_tensor.transpose(0, 1)[idxs[0], idxs[1]] = dst_tensor[idxs[0]"
     ", idxs[1]]",
     "    idxs = torch.triu_indices(rows, rows, 2, device=dst_tensor.device)"
     "\n    dst_tensor.transpose(0, 1)[idxs[0], idxs[1]] = dst_tensor[idxs[0]"
     ", idxs[1]]", ['C14']),
    ('capacity_check_off', 'kfac/distributed.py',
     'if bucket.size + tensor_size > self.bucket_cap_bytes or (',
     'if bucket.size > self.bucket_cap_bytes or (', ['C08']),
    ('flush_only_last_group', 'kfac/distributed.py',
     "        for group, bucket in self._allreduce_buckets.items():\n"
     "            if bucket is not None:\n"
     "                bucket.allreduce()\n"
     "                self._allreduce_buckets[group] = None",
     "        for group, bucket in list(self._allreduce_buckets.items())"
     "[-1:]:\n            if bucket is not None:\n"
     "                bucket.allreduce()\n"
     "                self._allreduce_buckets[group] = None", ['C08']),
    ('grad_cast_float32', 'kfac/layers/modules.py',
     "        if self.has_bias():\n"
     "            self.module.bias.grad = bias_grad.contiguous()\n"
     "        self.module.weight.grad = weight_grad.contiguous()",
     "        if self.has_bias():\n"
     "            self.module.bias.grad = bias_grad.contiguous()\n"
     "        self.module.weight.grad = weight_grad.contiguous().float()",
     ['C10']),
    ('eval_hooks_save', 'kfac/base_preconditioner.py',
     "        \"\"\"Hook for saving the input during the forward pass of a "
     "module.\"\"\"\n        if not module.training:\n            return",
     "        \"\"\"Hook for saving the input during the forward pass of a "
     "module.\"\"\"", ['C10', 'C04']),
    ('scheduler_ignores_explicit_step', 'kfac/scheduler.py',
     "            factor = self._damping_lambda(\n"
     "                step if step is not None else "
     "self._preconditioner.steps,\n            )",
     "            factor = self._damping_lambda(\n"
     "                self._preconditioner.steps,\n            )", ['C19']),
    ('scheduler_crosswired', 'kfac/scheduler.py',
     "            self._preconditioner._kl_clip *= factor",
     "            self._preconditioner._lr *= factor", ['C19']),
    ('trace_mean_over_all', 'kfac/tracing.py',
     "            out[fname] /= len(times)",
     "            out[fname] /= len(_func_traces[fname])", ['C20']),
    ('trace_window_one_short', 'kfac/tracing.py',
     "            times = times[-max_history:]",
     "            times = times[-max_history + 1:] if max_history > 1 "
     "else times[-1:]", ['C20']),
    ('gather_wrong_dim', 'kfac/gpt_neox/layer.py',
     "            dim=-1 if self.parallelism == 'input' else 0,\n        )\n\n"
     "        if self.module.has_bias():\n            bias_grad_partition",
     "            dim=0,\n        )\n\n"
     "        if self.module.has_bias():\n            bias_grad_partition",
     ['C11']),
    ('factor_worker_wrong_axis', 'kfac/gpt_neox/assignment.py',
     "        data_parallel_ranks = get_group_with_rank(\n"
     "            inv_rank,\n            self.data_parallel_groups,\n"
     "        )\n        factor_workers = set(data_parallel_ranks) & set(",
     "        data_parallel_ranks = get_group_with_rank(\n"
     "            inv_rank,\n            self.model_parallel_groups,\n"
     "        )\n        factor_workers = set(data_parallel_ranks) & set(",
     ['C12']),
    ('kaisa_src_wrong', 'kfac/assignment.py',
     "            self._grad_worker_groups[layer].ranks\n"
     "            & self._grad_receiver_groups[layer].ranks,\n        ).pop()",
     "            self._grad_worker_groups[layer].ranks,\n        ).pop()",
     ['C06']),
    ('state_dict_drops_rank_partition', 'kfac/gpt_neox/preconditioner.py',
     "        for partition in partitions:  # type: ignore\n",
     "        for partition in partitions[:-1] or partitions:  "
     "# type: ignore\n", ['C18']),
    ('load_skips_recompute', 'kfac/base_preconditioner.py',
     "                if get_rank() == self._assignment.inv_worker(name, "
     "'G'):\n                    layer.compute_g_inv(damping=self.damping)"
     "\n                if (\n                    self._assignment."
     "broadcast_inverses()\n                    and self._assignment."
     "is_grad_worker(name)\n                ):\n"
     "                    layer.broadcast_g_inv(\n"
     "                        src=self._assignment.inv_worker(name, 'G'),\n"
     "                        group=self._assignment.grad_worker_group(name),\n"
     "                    )\n\n    @torch.no_grad()",
     "                if (\n                    self._assignment."
     "broadcast_inverses()\n                    and self._assignment."
     "is_grad_worker(name)\n                    and False\n"
     "                ):\n"
     "                    layer.broadcast_g_inv(\n"
     "                        src=self._assignment.inv_worker(name, 'G'),\n"
     "                        group=self._assignment.grad_worker_group(name),\n"
     "                    )\n\n    @torch.no_grad()", ['C09']),
    ('conv_spatial_norm_dropped', 'kfac/layers/modules.py',
     "        a = a / spatial_size\n        return get_cov(a)",
     "        return get_cov(a)", ['C04']),
    ('placement_dependent_damping', 'kfac/base_preconditioner.py',
     "            if self._assignment.is_grad_worker(name):\n"
     "                layer.preconditioned_grad(damping=self.damping)",
     "            if self._assignment.is_grad_worker(name):\n"
     "                layer.preconditioned_grad(\n"
     "                    damping=self.damping * (1 + 0.01 * int(\n"
     "                        self._assignment.broadcast_gradients())),\n"
     "                )", ['C02']),
    ('bucket_futures_resolved_early', 'kfac/distributed.py',
     "        _future.add_done_callback(_callback)\n\n        return _future",
     "        if len(self._tensors) > 1:\n"
     "            for sub_tensor, sub_future in zip(\n"
     "                unflatten(tensor, self._tensors), self._futures,\n"
     "            ):\n"
     "                sub_future.set_result(sub_tensor)\n"
     "            self._tensors, self._futures = [], []\n"
     "            return _future\n"
     "        _future.add_done_callback(_callback)\n\n        return _future",
     ['C08', 'C04']),
    ('grad_buffer_reused_in_flight', 'kfac/layers/base.py',
     "        self.grad = self.tdc.broadcast(  # type: ignore\n"
     "            self.grad,\n            src=src,\n            group=group,\n"
     "        )",
     "        buf = self.grad\n"
     "        self.grad = self.tdc.broadcast(  # type: ignore\n"
     "            self.grad,\n            src=src,\n            group=group,\n"
     "        )\n"
     "        if get_rank() == src and isinstance(self._grad, Future):\n"
     "            buf.zero_()",
     ['C03']),
]


LAST_OCCURRENCE = {'broadcast_a_inv_from_g_worker'}


def apply(root: str, file: str, old: str, new: str, mid: str = '') -> None:
    p = os.path.join(root, file)
    s = open(p).read()
    if mid in LAST_OCCURRENCE and s.count(old) >= 1:
        i = s.rindex(old)
        open(p, 'w').write(s[:i] + new + s[i + len(old):])
        return
    if s.count(old) != 1:
        raise RuntimeError(f'{file}: pattern occurs {s.count(old)} times')
    open(p, 'w').write(s.replace(old, new))


def main() -> int:
    ap = argparse.ArgumentParser()
    ap.add_argument('--only')
    ap.add_argument('--cases', type=int, default=0)
    ap.add_argument('--dry', action='store_true')
    a = ap.parse_args()
    only = set(a.only.split(',')) if a.only else None
    results = []
    t0 = time.time()
    for mid, file, old, new, props in MUTANTS:
        if only and mid not in only:
            continue
        root = tempfile.mkdtemp(prefix='verif_mut_')
        try:
            shutil.copytree(os.path.join(REPO, 'kfac'),
                            os.path.join(root, 'kfac'))
            try:
                apply(root, file, old, new, mid)
            except RuntimeError as e:
                print(f'{mid}: CANNOT APPLY: {e}')
                results.append({'mutant': mid, 'error': str(e)})
                continue
            if a.dry:
                print(f'{mid}: applies')
                continue
            for pid in props:
                env = dict(os.environ, VERIF_REPO=root, VERIF_SEED='7')
                cmd = [os.path.join(HERE, 'check'), pid]
                if a.cases:
                    cmd += ['--cases', str(a.cases)]
                t1 = time.time()
                pr = subprocess.run(cmd, env=env, capture_output=True,
                                    text=True, cwd=HERE)
                caught = pr.returncode == 1 and 'VIOLATION' in pr.stdout
                first = next((ln for ln in pr.stdout.splitlines()
                              if ln.startswith('  clause=')), '')
                results.append({
                    'mutant': mid, 'property': pid, 'caught': caught,
                    'exit': pr.returncode, 'wall_s': round(
                        time.time() - t1, 1), 'first': first[:200]})
                print(f'{mid:36s} {pid} '
                      f'{"CAUGHT" if caught else "MISSED exit=%d" % pr.returncode}'
                      f' {time.time() - t1:5.1f}s {first[:110]}', flush=True)
        finally:
            shutil.rmtree(root, ignore_errors=True)
    if not a.dry:
        out = {'results': results, 'wall_s': round(time.time() - t0, 1),
               'caught': sum(1 for r in results if r.get('caught')),
               'total': sum(1 for r in results if 'caught' in r)}
        os.makedirs(os.path.join(HERE, 'evidence'), exist_ok=True)
        with open(os.path.join(HERE, 'evidence', 'selftest_mutants.json'),
                  'w') as f:
            json.dump(out, f, indent=1)
        print(f'caught {out["caught"]} of {out["total"]}')
    return 0


if __name__ == '__main__':
    sys.exit(main())
