"""Writes /verif/MANIFEST.json from the case registry (single source)."""

import json
import os
import sys

HERE = os.path.dirname(os.path.dirname(os.path.abspath(__file__)))
sys.path.insert(0, HERE)

LEVEL_TEXT = {
    'C01': ('exploration', '5/C01', 'Seeded simulation of N-rank training; on every rank and step the written-back gradient is compared with a dense float64 solve of the damped Kronecker system built from the layer\'s own factors. Sampling of configurations x histories x schedules, not proof.'),
    'C02': ('exploration', '5/C02', 'Differential simulation: the same job under two placements (different schedules and in-flight poisoning) and as one process over the union of batches must give the same gradients; plus cross-rank equality in every run.'),
    'C03': ('exploration', '5/C03', 'Trace checker over the simulated transport (per-group sequence agreement, membership, roots, new_group order, completion) and deadlock detection, over seeded histories including crash/restart, under six scheduling policies.'),
    'C04': ('exploration', '5/C04', 'Factors read through state_dict() after every operation are compared with a float64 recurrence recomputed from raw activations with F.unfold; symmetry, PSD, dtype and immutability across eval / non-update steps.'),
    'C05': ('exploration', '5/C05', 'Lock-step comparison with the RefKFAC state machine over seeded histories (train/eval/reset/scheduler/checkpoint round-trips) with constant, callable and scheduled hyper-parameters.'),
    'C07': ('exploration', '5/C07', 'Per step and rank, the scale between final gradients and the unclipped reference solution is compared with the clip formula, the KL bound, positivity, kl_clip=None and cross-rank agreement.'),
    'C09': ('fault_enumeration', '5/C09', 'Crash-restart simulation: checkpoints at drawn step boundaries, crashes at boundaries and mid-operation, restart into fresh objects (constructed with the saved or with other constants) from the serialized state, repeated rollback to one in-memory checkpoint; compared with the restarted reference and a third uninterrupted simulation.'),
    'C10': ('exploration', '5/C10', 'Before/after snapshots around every step and eval pass on every rank plus a K-FAC-free twin model fed the same batches, over a zoo of module trees.'),
    'C13': ('exploration', '5/C13', 'Per step: object-graph walk of tensors held per layer, memory_usage(), kfac-tagged transport log (kind, group, elements) and decomposition counters against what the strategy implies.'),
    'C19': ('exploration', '5/C19', 'Scheduler steps inside simulated histories compared with a reference mirror; constructor refusal; direct sweep of exp_decay_factor_averaging.'),
    'C06': ('exploration', '5/C06', 'N-rank construction of KAISAAssignment through the simulated new_group; statement relations checked through public queries; exhaustive over small worlds x divisors x colocate, seeded costs.'),
    'C08': ('exploration', '5/C08', 'Communicator-level simulation: random call sequences through allreduce_bucketed+flush vs allreduce vs computed integer results, with element accounting on the transport.'),
    'C11': ('exploration', '5/C11', 'Differential simulation of GPT-NeoX preconditioning sharded vs unsharded with stub Megatron layers over the simulated transport.'),
    'C12': ('exploration', '5/C12', 'N-rank construction of GPTNeoXAssignment over 3-D topologies; relations through public queries, independent greedy, new_group order.'),
    'C14': ('exploration', '5/C14', 'Symmetric vs dense communication through the simulated transport with position-revealing integer data; n-sweep is an enumeration.'),
    'C18': ('fault_enumeration', '5/C18', 'Crash-restart simulation of GPT-NeoX checkpoints (in-memory and directory mode on a simulated file system).'),
    'C20': ('exploration', '5/C20', 'Traced functions under an injected clock with steps and skew; statistics compared with a reference table built from the clock log.'),
}

NA = [
    ('C15', 'pure function of one module configuration and one input tensor: no schedule, clock, fault, history or multi-party behaviour to simulate (layout errors still surface through C01/C04, whose reference uses F.unfold)'),
    ('C16', 'pure function of a module tree and a pattern list evaluated once in one process (mis-registration surfaces in C05/C10 through the reference\'s own walk)'),
    ('C17', 'pure static function of ordered containers; only its cross-rank consistency is observable in simulation and that is C06'),
]


def main() -> None:
    from simkfac import runner
    runner.setup_paths()
    from simkfac import cases
    reg = cases.registry()
    checks = []
    for pid in sorted(reg):
        cat, ref, text = LEVEL_TEXT[pid]
        checks.append({
            'property_id': pid,
            'quick_cmd': f'./check {pid} --tier quick',
            'thorough_cmd': f'./check {pid} --tier thorough',
            'evidence_file': f'evidence/{pid}.json',
            'replay_cmd_template': f'./check {pid} --replay {{path}}',
            'engine': 'ranksim',
            'level_claimed': {'category': cat, 'text': text,
                              'design_ref': 'DESIGN.md section ' + ref},
            'level_note': 'trusted base: SimDist model of c10d semantics, the float64 reference (simkfac/ref.py), tolerance constants C=64/16/32; DeepSpeed/Megatron are stubs for GPT-NeoX properties',
            'technique': 'deterministic simulation with fault injection (seeded schedules, in-flight poisoning, crash/restart) + reference-model oracle',
        })
    na = [{'property_id': p, 'reason': r} for p, r in NA]
    claimed = {c['property_id'] for c in checks}
    for pid in sorted(set(LEVEL_TEXT) - claimed):
        na.append({'property_id': pid,
                   'reason': 'check not built yet in this round (planned, see DESIGN.md section 5)'})
    m = {
        'version': 1,
        'setup_cmd': '/venv/bin/python -B tools/setup_check.py',
        'hooks': {
            'guard': 'KFAC_PYTORCH_VERIF',
            'enable': 'no source hooks: the simulator patches torch.distributed / torch.futures.Future / kfac.tracing.time / torch.save / torch.load / os.environ (launcher variables per simulated rank) at module-attribute seams at run time',
            'baseline_off_cmd': 'cd /repo && /venv/bin/python -m pytest -ra -q -p no:cacheprovider --timeout=900 --continue-on-collection-errors',
            'source_commits': [],
            'add_only': True,
        },
        'engines': [{
            'name': 'ranksim', 'path': 'simkfac/',
            'serves_properties': sorted(claimed),
            'kind_free_text': 'single-process deterministic simulator of a torch.distributed job: baton-passing rank threads, seeded scheduler, simulated collectives/futures/clock/filesystem, crash-restart, in-flight poisoning; reference-model and trace oracles; ddmin minimiser; replay files',
        }],
        'checks': checks,
        'not_applicable': sorted(na, key=lambda x: x['property_id']),
        'notes': 'Exit codes: 0 held, 1 VIOLATION (with replay file), 2 harness error (never 0 after a timeout). Fixed defects and known findings: known_findings.json. VERIF_REPO selects the tree under test (default /repo).',
    }
    with open(os.path.join(HERE, 'MANIFEST.json'), 'w') as f:
        json.dump(m, f, indent=1)
    print('claimed', sorted(claimed))


main()
