"""setup_cmd: nothing is fetched or built; verify imports only."""
import os
import sys

sys.path.insert(0, os.path.dirname(os.path.dirname(os.path.abspath(__file__))))
from simkfac import runner

runner.setup_paths()
import torch  # noqa: E402
import kfac  # noqa: E402

print('setup ok: torch', torch.__version__, 'kfac from', kfac.__file__)
