#!/bin/sh
# usage: tools/try_refactor.sh <RID> <checks...> : runs checks against /tmp/wt_<RID> (patch re-applied from patch.diff); every check must exit 0
rid=$1; shift
wt=/tmp/wt_$rid
cd $wt && git checkout -q -- . && git apply /tmp/seeded_out/$rid/patch.diff || { echo "patch does not apply"; exit 9; }
cd /verif
for c in "$@"; do
  VERIF_REPO=$wt VERIF_SEED=21 ./check $c > /tmp/ref_$rid_$c.log 2>&1; rc=$?
  echo "$rid $c exit=$rc $(grep -E '^\[C[0-9]+\] [0-9]+ cases' /tmp/ref_$rid_$c.log | cut -c1-110)"
  [ $rc -ne 0 ] && grep -E -A1 "VIOLATION|HARNESS" /tmp/ref_$rid_$c.log | cut -c1-400 | head -8
done
