"""Re-runs every kept behaviour-preserving refactoring (/verif/refactors/*)
against the checks of the properties anchored in the files it touches.

A scratch copy of /repo/kfac is patched (outside /repo and /verif, removed
afterwards) and each check is run with VERIF_REPO=<copy>; every check must
exit 0 (KNOWN-FINDING lines are fine).  Results:
evidence/selftest_refactor_patches.json
"""
import json
import os
import shutil
import subprocess
import sys
import tempfile
import time

HERE = os.path.dirname(os.path.dirname(os.path.abspath(__file__)))
args = sys.argv[1:]
seed = '21'
if args and args[0] == '--seed':
    seed = args[1]
    args = args[2:]
only = set(args)
results = []
alarms = 0
for name in sorted(os.listdir(os.path.join(HERE, 'refactors'))):
    d = os.path.join(HERE, 'refactors', name)
    if not os.path.isdir(d) or (only and name not in only):
        continue
    meta = json.load(open(os.path.join(d, 'meta.json')))
    root = tempfile.mkdtemp(prefix='verif_refactor_')
    try:
        shutil.copytree('/repo/kfac', os.path.join(root, 'kfac'))
        pr = subprocess.run(['patch', '-p1', '-s', '-i',
                             os.path.join(d, 'patch.diff')], cwd=root,
                            capture_output=True, text=True)
        if pr.returncode:
            print(f'{name}: patch does not apply: {pr.stdout} {pr.stderr}')
            results.append({'refactor': name, 'error': 'patch'})
            alarms += 1
            continue
        for pid in meta['checks']:
            t0 = time.time()
            env = dict(os.environ, VERIF_REPO=root, VERIF_SEED=seed)
            r = subprocess.run([os.path.join(HERE, 'check'), pid], env=env,
                               capture_output=True, text=True, cwd=HERE)
            first = next((x for x in r.stdout.splitlines()
                          if x.startswith('  clause=')), '')
            ok = r.returncode == 0
            alarms += 0 if ok else 1
            results.append({'refactor': name, 'property': pid, 'seed': seed,
                            'exit': r.returncode, 'quiet': ok,
                            'wall_s': round(time.time() - t0, 1),
                            'first': first[:200]})
            print(f'{name:6s} {pid} seed={seed} '
                  f'{"quiet" if ok else "ALARM exit=%d" % r.returncode} '
                  f'{first[:120]}', flush=True)
    finally:
        shutil.rmtree(root, ignore_errors=True)
with open(os.path.join(HERE, 'evidence', 'selftest_refactor_patches.json'),
          'w') as f:
    json.dump({'alarms': alarms, 'results': results}, f, indent=1)
print(f'refactor patches: {alarms} alarms')
sys.exit(1 if alarms else 0)
