#!/bin/sh
# usage: tools/soak.sh <first_seed> <last_seed> [tier] [ids...]   -- runs every check for each seed; prints failures
first=$1; last=$2; tier=${3:-quick}; shift; shift; shift
ids="$@"
[ -z "$ids" ] && ids="C01 C02 C03 C04 C05 C06 C07 C08 C09 C10 C11 C12 C13 C14 C18 C19 C20"
cd "$(dirname "$0")/.."
mkdir -p /tmp/soak_logs
fail=0
for s in $(seq $first $last); do
  for id in $ids; do
    VERIF_SEED=$s ./check $id --tier $tier > /tmp/soak_logs/$id-$s.log 2>&1
    rc=$?
    if [ $rc -ne 0 ]; then
      fail=$((fail+1)); echo "FAIL seed=$s id=$id rc=$rc"; grep -A1 -E "VIOLATION|HARNESS" /tmp/soak_logs/$id-$s.log | cut -c1-400 | head -6
      mkdir -p soak_failures; cp replays/$id-$s-*.json soak_failures/ 2>/dev/null
    else
      tail -1 /tmp/soak_logs/$id-$s.log
    fi
  done
done
echo "soak done failures=$fail"
