#!/bin/sh
# usage: tools/confirm_seeded.sh <PID> [checks...]
# Confirms a sub-agent's seeded change in the scratch worktree /tmp/wt_<PID>:
# the worktree is reset and the change re-applied from patch.diff (git stash is
# shared between worktrees and must not be used); suite passes with it, demo
# fails with it and passes without it; then the listed checks (default: the
# property's own) are run against the changed tree.
pid=$1; shift
checks="$@"; [ -z "$checks" ] && checks=$pid
wt=/tmp/wt_$pid; out=/tmp/seeded_out/$pid
demo=$(ls $out/demo*.py | head -1)
cmd="/venv/bin/python $demo"
case "$demo" in *_test.py) cmd="/venv/bin/python -m pytest -q -p no:cacheprovider $demo";; esac
cd $wt || exit 9
git checkout -q -- . && git apply $out/patch.diff || { echo "patch does not apply"; exit 9; }
echo "== diff stat"; git diff --stat | tail -3
echo "== suite with change"; PYTHONPATH=$wt timeout 1500 /venv/bin/python -m pytest -q -p no:cacheprovider --timeout=900 2>&1 | grep -E "passed|failed|error" | tail -2
echo "== demo with change (expect failure)"; PYTHONPATH=$wt timeout 600 $cmd >/tmp/demo_with_$pid.log 2>&1; echo "exit=$?"
git apply -R $out/patch.diff
echo "== demo without change (expect success)"; PYTHONPATH=$wt timeout 600 $cmd >/tmp/demo_without_$pid.log 2>&1; echo "exit=$?"
git apply $out/patch.diff
for c in $checks; do
  echo "== check $c against changed tree"
  (cd /verif && VERIF_REPO=$wt VERIF_SEED=11 ./check $c 2>&1 | grep -E "VIOLATION|clause=|KNOWN|\] [0-9]+ cases" | cut -c1-260 | head -6)
done
